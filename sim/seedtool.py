#!/venv/bin/python -B
# -*- coding: utf-8 -*-
"""Confirm an independently written breaking change and run the checks on it.

  seedtool.py <source-dir> <seed-id> <PROP> [--runs N]

<source-dir> holds patch.diff, demo.py, notes.md (written by a sub-agent in its
own scratch worktree).  Steps, all in a scratch worktree of /repo under /tmp
that is removed afterwards:
  1. patch applies to /repo HEAD; 2. the unedited suite still passes;
  3. demo.py exits 1 with the patch and 0 without; 4. the quick check of PROP
  (and its replay) is run against the patched tree.
Writes /verif/seeded/<seed-id>/{patch.diff,demo.py,notes.md,meta.json}."""
from __future__ import print_function

import json
import os
import shutil
import subprocess
import sys
import time

VERIF = os.path.dirname(os.path.dirname(os.path.abspath(__file__)))
PY = '/venv/bin/python'


def sh(cmd, **kw):
    p = subprocess.run(cmd, stdout=subprocess.PIPE, stderr=subprocess.STDOUT, **kw)
    return p.returncode, p.stdout.decode('utf-8', 'replace')


def main(argv):
    src, sid, prop = argv[0], argv[1], argv[2]
    runs = None
    if '--runs' in argv:
        runs = argv[argv.index('--runs') + 1]
    wt = '/tmp/vs_' + sid.replace('/', '_')
    sh(['git', '-C', '/repo', 'worktree', 'remove', '--force', wt])
    rc, o = sh(['git', '-C', '/repo', 'worktree', 'add', '-q', '--detach', wt, 'HEAD'])
    assert rc == 0, o
    meta = {'property': prop, 'source': 'fresh sub-agent given only the property text and a scratch worktree',
            'repo_head': sh(['git', '-C', '/repo', 'rev-parse', '--short', 'HEAD'])[1].strip()}
    try:
        patch = os.path.join(src, 'patch.diff')
        rc, o = sh(['git', '-C', wt, 'apply', patch])
        meta['patch_applies'] = rc == 0
        if rc != 0:
            print("patch does not apply:", o)
            return 2
        rc, o = sh(['timeout', '1200', PY, '-m', 'pytest', '-q', '-p', 'no:cacheprovider', '--timeout=900'], cwd=wt)
        tail = o.strip().splitlines()[-1] if o.strip() else ''
        meta['suite_with_patch'] = tail
        meta['suite_passes'] = (rc == 0)
        rc1, o1 = sh(['timeout', '300', PY, '-B', os.path.join(src, 'demo.py'), wt])
        rc0, o0 = sh(['timeout', '300', PY, '-B', os.path.join(src, 'demo.py'), '/repo'])
        meta['demo_exit_with_patch'] = rc1
        meta['demo_exit_without_patch'] = rc0
        meta['demo_output_with_patch'] = o1[-600:]
        meta['confirmed'] = bool(meta['suite_passes'] and rc1 == 1 and rc0 == 0)
        # run the check(s) from a private copy of the machinery, so that /verif/sim can be
        # edited while this runs
        snap = wt + '_verif'
        shutil.rmtree(snap, ignore_errors=True)
        os.makedirs(snap)
        for d in ('sim', 'regress'):
            shutil.copytree(os.path.join(VERIF, d), os.path.join(snap, d))
        shutil.copy(os.path.join(VERIF, 'known_findings.txt'), snap)
        meta['verif_commit'] = sh(['git', '-C', VERIF, 'rev-parse', '--short', 'HEAD'])[1].strip()
        meta['checks'] = []
        for pr in prop.split(','):
            env = dict(os.environ, VERIF_REPO=wt, VERIF_NO_DETCHECK='1', VERIF_EVIDENCE_DIR=os.path.join(wt, '.ev'))
            cmd = [PY, '-B', os.path.join(snap, 'sim', 'check.py'), pr, '--tier', 'quick']
            if runs:
                cmd += ['--runs', runs]
            t0 = time.time()
            rc, o = sh(cmd, env=env, cwd=snap)
            lines = o.splitlines()
            vio = [l for l in lines if l.startswith('VIOLATION')]
            first = [l for l in lines if l.startswith('violation')]
            entry = {'property': pr, 'cmd': 'sim/check.py %s --tier quick%s (VERIF_REPO=<patched tree>)' %
                     (pr, (' --runs ' + runs) if runs else ''), 'exit': rc,
                     'detected': rc == 1 and bool(vio), 'violation_lines': vio[:4],
                     'first_reports': first[:3], 'summary': [l for l in lines if l.startswith(pr + ' quick')][:1],
                     'wall_s': round(time.time() - t0, 1)}
            # keep the minimised replay programs next to the seed
            progs = []
            for l in vio[:2]:
                path = l.split('replay=')[1].strip()
                try:
                    rec = json.load(open(path))
                    progs.append({'invariant': rec.get('invariant'), 'program': rec.get('program'),
                                  'observed': rec.get('observed'), 'expected': rec.get('expected')})
                except Exception:
                    pass
            entry['minimised'] = progs
            if rc == 2:
                entry['harness_output'] = o[-800:]
            meta['checks'].append(entry)
        meta['detected'] = any(c['detected'] for c in meta['checks'])
    finally:
        sh(['git', '-C', '/repo', 'worktree', 'remove', '--force', wt])
        shutil.rmtree(wt, ignore_errors=True)
        shutil.rmtree(wt + '_verif', ignore_errors=True)
    dst = os.path.join(VERIF, 'seeded', sid)
    os.makedirs(dst, exist_ok=True)
    for f in ('patch.diff', 'demo.py', 'notes.md'):
        if os.path.exists(os.path.join(src, f)):
            shutil.copy(os.path.join(src, f), os.path.join(dst, f))
    notes = os.path.join(src, 'notes.md')
    meta['needs_to_manifest'] = open(notes).read()[:1500] if os.path.exists(notes) else ''
    meta['what_was_run'] = ['git apply patch.diff on a scratch worktree of /repo HEAD',
                            'pytest (unedited suite) with the patch', 'demo.py with and without the patch',
                            'quick check of the property against the patched tree']
    json.dump(meta, open(os.path.join(dst, 'meta.json'), 'w'), indent=1, sort_keys=True)
    print(json.dumps({k: meta[k] for k in ('confirmed', 'detected', 'suite_with_patch', 'demo_exit_with_patch',
                                           'demo_exit_without_patch')}, indent=1))
    for c in meta['checks']:
        print(c['property'], 'exit', c['exit'], c['wall_s'], 's', c['first_reports'][:1], c['summary'])
    return 0


if __name__ == '__main__':
    sys.exit(main(sys.argv[1:]))

# -*- coding: utf-8 -*-
"""Canonical, JSON-able dumps of pylatexenc results (nodes, tokens, errors,
parsing states, databases).  Object identities never enter a dump (they are not
comparable across processes); shared parsing-state objects are numbered in
first-visit order."""
from __future__ import print_function

import re

_rx_addr = re.compile(r'0x[0-9a-fA-F]+')
_rx_walker = re.compile(r'<LatexWalker [^>]*>')
_rx_objid = re.compile(r'<(\w+)<[^>]*>')


def scrub(msg):
    msg = _rx_addr.sub('0xADDR', msg)
    msg = _rx_walker.sub('<LatexWalker>', msg)
    return msg


def dump_spec(spec):
    if spec is None:
        return None
    out = [type(spec).__name__]
    for a in ('macroname', 'environmentname', 'specials_chars'):
        v = getattr(spec, a, None)
        if isinstance(v, str):
            out.append(v)
    t = getattr(spec, 'tag', None)
    if isinstance(t, str):
        out.append(t)
    return out


def dump_context(ctx):
    if ctx is None:
        return None
    try:
        return [type(ctx).__name__, list(ctx.categories())]
    except Exception:
        return [type(ctx).__name__]


def _plain(v):
    if v is None or isinstance(v, (bool, int, str)):
        return v
    if isinstance(v, float):
        return repr(v)
    if isinstance(v, (list, tuple)):
        return [_plain(x) for x in v]
    if isinstance(v, (set, frozenset)):
        return sorted(_plain(x) for x in v)
    if isinstance(v, dict):
        return {str(k): _plain(x) for k, x in v.items()}
    return '<%s>' % type(v).__name__


def dump_parsing_state_fields(ps):
    d = {}
    for f in ps._fields:
        if f == 's':
            continue
        v = getattr(ps, f, '<missing>')
        if f == 'latex_context':
            d[f] = dump_context(v)
        else:
            d[f] = _plain(v)
    return d


class Dumper(object):
    def __init__(self, with_parsing_state=True):
        self.with_ps = with_parsing_state
        self.ps_ids = {}
        self.ps_table = []
        self._keep = []     # keep parsing-state objects alive so ids stay unique

    def ps(self, ps):
        if not self.with_ps:
            return None
        if ps is None:
            return None
        k = id(ps)
        if k not in self.ps_ids:
            self.ps_ids[k] = len(self.ps_table)
            self._keep.append(ps)
            try:
                self.ps_table.append(dump_parsing_state_fields(ps))
            except Exception as e:
                self.ps_table.append(['<undumpable parsing state>', type(e).__name__])
        return self.ps_ids[k]

    def argspec(self, a):
        if a is None or isinstance(a, str):
            return a
        parser = getattr(a, 'parser', None)
        if not isinstance(parser, str) and parser is not None:
            p = [type(parser).__name__]
            for attr in ('arg_spec', 'delimiters', 'is_math_mode', 'optional', 'allow_pre_space',
                         'return_full_node_list', 'chars', 'include_brace_chars', 'delimiter_chars',
                         'auto_delimiters', 'depth_counter_init', 'include_skipped_comments',
                         'skip_pre_space'):
                if hasattr(parser, attr):
                    p.append([attr, _plain(getattr(parser, attr))])
            parser = p
        return ['argspec', getattr(a, 'argname', None), parser]

    def parsed_args(self, pa):
        if pa is None:
            return None
        out = {'class': type(pa).__name__}
        fields = getattr(pa, '_fields', ('arguments_spec_list', 'argnlist'))
        for f in fields:
            v = getattr(pa, f, '<missing>')
            if f == 'arguments_spec_list':
                out[f] = [self.argspec(a) for a in (v or [])]
            elif f == 'argnlist':
                out[f] = [self.node(n) for n in (v or [])]
            else:
                out[f] = self.value(v)
        return out

    def value(self, v):
        # anything that may contain nodes
        from pylatexenc.latexnodes import nodes as N
        from pylatexenc.latexnodes import ParsedArguments
        if isinstance(v, (N.LatexNode, N.LatexNodeList)):
            return self.node(v)
        if isinstance(v, ParsedArguments):
            return self.parsed_args(v)
        if isinstance(v, (list, tuple)):
            return [self.value(x) for x in v]
        if isinstance(v, dict):
            return {str(k): self.value(x) for k, x in v.items()}
        return _plain(v)

    def node(self, n):
        from pylatexenc.latexnodes import nodes as N
        if n is None:
            return None
        if isinstance(n, N.LatexNodeList):
            return {'t': 'NodeList', 'pos': n.pos, 'pos_end': n.pos_end,
                    'ps': self.ps(getattr(n, 'parsing_state', None)),
                    'nodes': [self.node(x) for x in n.nodelist]}
        if isinstance(n, list):
            return {'t': 'list', 'nodes': [self.node(x) for x in n]}
        if not isinstance(n, N.LatexNode):
            return self.value(n)
        d = {'t': type(n).__name__, 'pos': n.pos, 'pos_end': n.pos_end,
             'ps': self.ps(n.parsing_state)}
        for f in n._fields:
            if f in ('pos', 'pos_end', 'parsing_state', 'latex_walker'):
                continue
            v = getattr(n, f, '<missing>')
            if f == 'spec':
                d[f] = dump_spec(v)
            elif f == 'nodeargd':
                d[f] = self.parsed_args(v)
            else:
                d[f] = self.value(v)
        return d

    def result(self, nodes, delta=None):
        out = {'nodes': self.node(nodes)}
        if delta is not None:
            out['delta'] = self.delta(delta)
        if self.with_ps:
            out['parsing_states'] = self.ps_table
        return out

    def delta(self, delta):
        if delta is None:
            return None
        d = {'class': type(delta).__name__}
        for f in getattr(delta, '_fields', ()) or ():
            v = getattr(delta, f, None)
            if f == 'set_parsing_state' and v is not None:
                d[f] = dump_parsing_state_fields(v)
            elif f == 'extend_latex_context' and isinstance(v, dict):
                d[f] = {k: [dump_spec(s) for s in (vv or [])] for k, vv in v.items()}
            else:
                d[f] = _plain(v)
        return d


def dump_error(e):
    d = {'error': type(e).__name__}
    pos = getattr(e, 'pos', None)
    if isinstance(pos, int) or pos is None:
        d['pos'] = pos
    # the message text is deliberately not part of the dump: wording (and e.g. the order in which
    # alternatives are listed) is not what the properties are about; type, position, line/column,
    # the machine-readable 'what' and the open contexts are
    for a in ('lineno', 'colno'):
        v = getattr(e, a, None)
        if isinstance(v, int) or v is None:
            d[a] = v
    eti = getattr(e, 'error_type_info', None)
    if isinstance(eti, dict):
        d['what'] = _plain(eti.get('what'))
    oc = getattr(e, 'open_contexts', None)
    if isinstance(oc, list):
        d['open_contexts'] = [[scrub(str(x[0])) if x and x[0] is not None else None] +
                              [_plain(y) for y in list(x)[1:]] for x in oc if isinstance(x, (tuple, list))]
    return d


def dump_token(t):
    if t is None:
        return None
    arg = t.arg
    if not isinstance(arg, str) and arg is not None:
        arg = dump_spec(arg)
    return [t.tok, arg, t.pos, t.pos_end, t.pre_space, getattr(t, 'post_space', None)]

#!/venv/bin/python -B
# -*- coding: utf-8 -*-
"""Turn the minimised programs found for the independently written changes
(/verif/seeded/*/meta.json) into regression programs /verif/regress/<prop>/seeded-<id>.json.

A program is kept only if, re-executed now, it (a) still violates the same
invariant on a scratch copy of /repo with the seed's patch applied and (b) is
clean on /repo itself.  The regression programs are replayed before every
seeded search, so a change of the same kind is reported at once and
deterministically."""
from __future__ import print_function

import glob
import json
import os
import shutil
import subprocess
import sys
import tempfile

sys.path.insert(0, os.path.dirname(os.path.abspath(__file__)))
import core  # noqa: E402


def run(prop, hc, program, repo):
    os.environ['VERIF_REPO'] = repo
    r = core.ProgramRunner(prop, hc)
    try:
        rep = r.run(program)
    finally:
        r.close()
    return rep.get('violation'), rep.get('digest')


MAX_OPS = 120       # longer (volume) programs are not kept: seconds per replay, and the search finds them again


def main():
    kept, dropped = 0, 0
    only = set(sys.argv[1:])
    for meta_path in sorted(glob.glob(os.path.join(core.VERIF_DIR, 'seeded', '*', 'meta.json'))):
        sid = os.path.basename(os.path.dirname(meta_path))
        if only and sid not in only:
            continue
        meta = json.load(open(meta_path))
        patch = os.path.join(os.path.dirname(meta_path), 'patch.diff')
        top = tempfile.mkdtemp(prefix='verif-harvest-', dir='/var/tmp')
        try:
            subprocess.check_call(['rsync', '-a', '--exclude', '.git', '--exclude', '__pycache__', '/repo/', top + '/'])
            if subprocess.call(['patch', '-p1', '-s', '-d', top, '-i', patch]) != 0:
                print(sid, 'patch does not apply')
                continue
            for c in meta.get('checks', []):
                prop = c['property']
                for k, m in enumerate(c.get('minimised') or []):
                    if len(m['program'].get('ops', [])) > MAX_OPS:
                        print(sid, prop, m['invariant'], 'volume program (%d operations): not kept' % len(m['program']['ops']))
                        continue
                    found = None
                    for hc in range(core.HASH_CLASSES):
                        try:
                            v, dg = run(prop, hc, m['program'], top)
                        except core.HarnessError:
                            continue
                        if v and v['invariant'] == m['invariant']:
                            found = (hc, v, dg)
                            break
                    if not found:
                        dropped += 1
                        print(sid, prop, m['invariant'], 'does not reproduce any more: dropped')
                        continue
                    hc, v, dg = found
                    try:
                        v0, _ = run(prop, hc, m['program'], '/repo')
                    except core.HarnessError as e:
                        v0 = {'invariant': 'harness:' + str(e)[:60]}
                    if v0:
                        dropped += 1
                        print(sid, prop, 'NOT CLEAN ON /repo:', v0['invariant'])
                        continue
                    rec = {'property': prop, 'seed': 0, 'run': -1, 'hashseed_class': hc,
                           'invariant': m['invariant'], 'program': m['program'],
                           'observed': v.get('observed'), 'expected': v.get('expected'),
                           'note': 'minimised program that exposes the independently written change seeded/%s '
                                   '(not a defect of /repo); replayed before every seeded search' % sid}
                    d = os.path.join(core.VERIF_DIR, 'regress', prop)
                    os.makedirs(d, exist_ok=True)
                    name = 'seeded-%s%s.json' % (sid, ('-%d' % k) if k else '')
                    json.dump(rec, open(os.path.join(d, name), 'w'), indent=1, sort_keys=True)
                    kept += 1
        finally:
            shutil.rmtree(top, ignore_errors=True)
    print('kept', kept, 'dropped', dropped)


if __name__ == '__main__':
    main()

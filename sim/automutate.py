#!/venv/bin/python -B
# -*- coding: utf-8 -*-
"""Systematic sensitivity measurement: machine-generated first-order mutants of
one source file, each applied to a scratch copy of /repo (never to /repo).

  automutate.py <PROP> <path/in/repo.py> [--only-lines A-B] [--runs N] [--jobs J] [--max M]

1. every mutant is run against the repository's own test suite (in parallel);
   mutants the suite kills are of no interest here;
2. every *survivor* is run through the quick check of <PROP> (VERIF_REPO=scratch);
3. a table goes to /verif/mutants/auto/<PROP>-<file>.json: killed by the suite,
   detected by the check, missed (with the one-line diff) -- the missed ones are
   triaged by hand (equivalent / outside the property / a gap).

Mutation operators (statement granularity, re-rendered with ast.unparse):
comparison operators, and/or, negated if/while/ternary tests, True/False, small
integers, deleted simple statements, `return <expr>` -> `return None`,
swapped call arguments are NOT generated (too many equivalent ones)."""
from __future__ import print_function

import ast
import copy
import json
import os
import shutil
import subprocess
import sys
import tempfile
import time
from concurrent.futures import ProcessPoolExecutor

sys.path.insert(0, os.path.dirname(os.path.abspath(__file__)))
import core  # noqa: E402

PY = '/venv/bin/python'
CMP_SWAP = {ast.Eq: ast.NotEq, ast.NotEq: ast.Eq, ast.Lt: ast.LtE, ast.LtE: ast.Lt, ast.Gt: ast.GtE,
            ast.GtE: ast.Gt, ast.In: ast.NotIn, ast.NotIn: ast.In, ast.Is: ast.IsNot, ast.IsNot: ast.Is}


class Mutator(ast.NodeTransformer):
    """Applies the k-th possible mutation inside one statement (count first with k=None)."""

    def __init__(self, k=None):
        self.k = k
        self.n = 0
        self.desc = None

    def _hit(self, desc):
        hit = (self.n == self.k)
        self.n += 1
        if hit:
            self.desc = desc
        return hit

    def visit_Compare(self, node):
        self.generic_visit(node)
        for i, op in enumerate(node.ops):
            if type(op) in CMP_SWAP and self._hit('compare %s -> %s' % (type(op).__name__, CMP_SWAP[type(op)].__name__)):
                node = copy.deepcopy(node)
                node.ops[i] = CMP_SWAP[type(op)]()
        return node

    def visit_BoolOp(self, node):
        self.generic_visit(node)
        if self._hit('boolop %s swapped' % type(node.op).__name__):
            node = copy.deepcopy(node)
            node.op = ast.Or() if isinstance(node.op, ast.And) else ast.And()
        return node

    def _neg(self, node, what):
        if self._hit('negated %s test' % what):
            node = copy.deepcopy(node)
            node.test = ast.UnaryOp(op=ast.Not(), operand=node.test)
        return node

    def visit_If(self, node):
        self.generic_visit(node)
        return self._neg(node, 'if')

    def visit_While(self, node):
        self.generic_visit(node)
        return self._neg(node, 'while')

    def visit_IfExp(self, node):
        self.generic_visit(node)
        return self._neg(node, 'conditional-expression')

    def visit_Constant(self, node):
        if node.value is True or node.value is False:
            if self._hit('constant %r flipped' % node.value):
                return ast.copy_location(ast.Constant(value=not node.value), node)
        elif isinstance(node.value, int) and not isinstance(node.value, bool) and -2 <= node.value <= 3:
            if self._hit('constant %d -> %d' % (node.value, node.value + 1)):
                return ast.copy_location(ast.Constant(value=node.value + 1), node)
            if node.value > 0 and self._hit('constant %d -> %d' % (node.value, node.value - 1)):
                return ast.copy_location(ast.Constant(value=node.value - 1), node)
        return node

    def visit_Return(self, node):
        self.generic_visit(node)
        if node.value is not None and not (isinstance(node.value, ast.Constant) and node.value.value is None):
            if self._hit('return value -> None'):
                node = copy.deepcopy(node)
                node.value = ast.Constant(value=None)
        return node


def simple_statements(tree):
    """(statement node, parent body list) for every statement that is not a def/class/docstring."""
    out = []

    def rec(body):
        for st in body:
            if isinstance(st, (ast.FunctionDef, ast.ClassDef)):
                rec(st.body)
                continue
            if isinstance(st, ast.Expr) and isinstance(st.value, ast.Constant) and isinstance(st.value.value, str):
                continue
            if isinstance(st, (ast.Import, ast.ImportFrom)):
                continue
            out.append(st)
            for fld in ('body', 'orelse', 'finalbody', 'handlers'):
                sub = getattr(st, fld, None)
                if isinstance(sub, list):
                    for x in sub:
                        if isinstance(x, ast.ExceptHandler):
                            rec(x.body)
                    rec([x for x in sub if isinstance(x, ast.stmt)])
    rec(tree.body)
    return out


def header_only(st):
    """A copy of a compound statement with its nested statements emptied (we mutate headers
    and simple statements; nested statements are visited on their own)."""
    st = copy.deepcopy(st)
    for fld in ('body', 'orelse', 'finalbody'):
        if isinstance(getattr(st, fld, None), list) and getattr(st, fld):
            setattr(st, fld, [ast.Pass()])
    if hasattr(st, 'handlers'):
        for h in st.handlers:
            h.body = [ast.Pass()]
    return st


def generate(source, only=None):
    tree = ast.parse(source)
    lines = source.splitlines(True)
    mutants = []
    for st in simple_statements(tree):
        if only and not (only[0] <= st.lineno <= only[1]):
            continue
        compound = any(isinstance(getattr(st, f, None), list) and getattr(st, f) for f in ('body',))
        indent = lines[st.lineno - 1][:len(lines[st.lineno - 1]) - len(lines[st.lineno - 1].lstrip())]
        if compound:
            # mutate only the header expression(s): re-render the header line(s) by textual surgery
            # on the test expression
            test = getattr(st, 'test', None)
            if test is None:
                continue
            seg = ast.get_source_segment(source, test)
            if seg is None or test.lineno != test.end_lineno and False:
                continue
            cnt = Mutator(None)
            cnt.visit(copy.deepcopy(test))
            variants = []
            for k in range(cnt.n):
                m = Mutator(k)
                new = m.visit(copy.deepcopy(test))
                ast.fix_missing_locations(new)
                variants.append((m.desc, '(' + ast.unparse(new) + ')'))
            variants.append(('negated %s test' % type(st).__name__.lower(), '(not (' + seg + '))'))
            for desc, text in variants:
                # replace the exact source span of the test
                start = sum(len(l) for l in lines[:test.lineno - 1]) + _col(lines[test.lineno - 1], test.col_offset)
                end = sum(len(l) for l in lines[:test.end_lineno - 1]) + _col(lines[test.end_lineno - 1], test.end_col_offset)
                mutants.append({'line': st.lineno, 'desc': desc,
                                'source': source[:start] + text + source[end:]})
            continue
        cnt = Mutator(None)
        cnt.visit(copy.deepcopy(st))
        start = sum(len(l) for l in lines[:st.lineno - 1])
        end = sum(len(l) for l in lines[:st.end_lineno])
        for k in range(cnt.n):
            m = Mutator(k)
            new = m.visit(copy.deepcopy(st))
            ast.fix_missing_locations(new)
            text = ''.join(indent + l + '\n' for l in ast.unparse(new).splitlines())
            mutants.append({'line': st.lineno, 'desc': m.desc, 'source': source[:start] + text + source[end:]})
        if isinstance(st, (ast.Assign, ast.AugAssign, ast.Expr)) and not isinstance(getattr(st, 'value', None), ast.Yield):
            mutants.append({'line': st.lineno, 'desc': 'statement deleted',
                            'source': source[:start] + indent + 'pass\n' + source[end:]})
    # de-duplicate and drop no-ops
    seen, out = set(), []
    for m in mutants:
        if m['source'] == source or m['source'] in seen:
            continue
        try:
            compile(m['source'], 'mutant', 'exec')
        except SyntaxError:
            continue
        seen.add(m['source'])
        out.append(m)
    return out


def _col(line, byte_col):
    # ast column offsets are UTF-8 byte offsets
    return len(line.encode('utf-8')[:byte_col].decode('utf-8', 'ignore'))


def scratch_with(relpath, source):
    top = tempfile.mkdtemp(prefix='verif-am-', dir='/var/tmp')
    subprocess.check_call(['rsync', '-a', '--exclude', '.git', '--exclude', '__pycache__', core.repo_path() + '/', top + '/'])
    with open(os.path.join(top, relpath), 'w', encoding='utf-8') as f:
        f.write(source)
    return top


def suite_verdict(args):
    relpath, source = args
    top = scratch_with(relpath, source)
    try:
        p = subprocess.run(['timeout', '600', PY, '-m', 'pytest', '-q', '-x', '-p', 'no:cacheprovider', '--timeout=300'],
                           cwd=top, stdout=subprocess.PIPE, stderr=subprocess.STDOUT,
                           env=dict(os.environ, PYTHONDONTWRITEBYTECODE='1'))
        return p.returncode == 0
    finally:
        shutil.rmtree(top, ignore_errors=True)


def check_verdict(prop, relpath, source, runs):
    top = scratch_with(relpath, source)
    try:
        env = dict(os.environ, VERIF_REPO=top, VERIF_NO_DETCHECK='1', VERIF_EVIDENCE_DIR=os.path.join(top, '.ev'))
        cmd = [PY, '-B', os.path.join(core.SIM_DIR, 'check.py'), prop, '--tier', 'quick', '--runs', str(runs)]
        q = subprocess.run(cmd, env=env, stdout=subprocess.PIPE, stderr=subprocess.STDOUT, cwd=core.VERIF_DIR, timeout=3600)
        text = q.stdout.decode('utf-8', 'replace')
        first = [l for l in text.splitlines() if l.startswith('violation')]
        inv = first[0].split('invariant=')[1].split(' ')[0] if first else None
        return q.returncode, inv, ([l for l in text.splitlines() if l.startswith('HARNESS')] or [''])[0][:200]
    finally:
        shutil.rmtree(top, ignore_errors=True)


def one_line_diff(a, b):
    import difflib
    out = [l for l in difflib.unified_diff(a.splitlines(), b.splitlines(), lineterm='', n=0)
           if l[:1] in '+-' and not l.startswith(('+++', '---'))]
    return out[:6]


def main(argv):
    prop, relpath = argv[0], argv[1]
    only, runs, jobs, mx = None, {'C14': 3000, 'C15': 4000, 'C17': 300, 'C09': 600}.get(prop, 1000), 16, None
    i = 2
    while i < len(argv):
        if argv[i] == '--only-lines':
            a, b = argv[i + 1].split('-')
            only = (int(a), int(b))
        elif argv[i] == '--runs':
            runs = int(argv[i + 1])
        elif argv[i] == '--jobs':
            jobs = int(argv[i + 1])
        elif argv[i] == '--max':
            mx = int(argv[i + 1])
        i += 2
    source = open(os.path.join(core.repo_path(), relpath), encoding='utf-8').read()
    mutants = generate(source, only)
    if mx:
        mutants = mutants[:mx]
    print('%d mutants of %s' % (len(mutants), relpath))
    sys.stdout.flush()
    t0 = time.time()
    with ProcessPoolExecutor(max_workers=jobs) as ex:
        verdicts = list(ex.map(suite_verdict, [(relpath, m['source']) for m in mutants]))
    survivors = [m for m, ok in zip(mutants, verdicts) if ok]
    print('suite: %d killed, %d survive (%.0fs)' % (len(mutants) - len(survivors), len(survivors), time.time() - t0))
    sys.stdout.flush()
    results = []
    for m in survivors:
        rc, inv, herr = check_verdict(prop, relpath, m['source'], runs)
        verdict = 'detected' if rc == 1 else ('missed' if rc == 0 else 'harness-error')
        results.append({'line': m['line'], 'mutation': m['desc'], 'verdict': verdict, 'invariant': inv,
                        'harness': herr, 'diff': one_line_diff(source, m['source'])})
        print('%-13s line %4d %-34s %s %s' % (verdict, m['line'], m['desc'], inv or '', herr))
        sys.stdout.flush()
    summary = {'property': prop, 'file': relpath, 'repo_head': subprocess.check_output(
        ['git', '-C', core.repo_path(), 'rev-parse', '--short', 'HEAD']).decode().strip(),
        'runs_per_check': runs, 'mutants': len(mutants), 'killed_by_suite': len(mutants) - len(survivors),
        'survivors': len(survivors), 'detected': sum(1 for r in results if r['verdict'] == 'detected'),
        'missed': sum(1 for r in results if r['verdict'] == 'missed'),
        'harness_errors': sum(1 for r in results if r['verdict'] == 'harness-error'), 'results': results}
    d = os.path.join(core.VERIF_DIR, 'mutants', 'auto')
    os.makedirs(d, exist_ok=True)
    name = '%s-%s.json' % (prop, os.path.basename(relpath).replace('.py', ''))
    json.dump(summary, open(os.path.join(d, name), 'w'), indent=1)
    print(json.dumps({k: v for k, v in summary.items() if k != 'results'}))
    return 0


if __name__ == '__main__':
    sys.exit(main(sys.argv[1:]))

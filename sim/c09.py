# -*- coding: utf-8 -*-
"""C09 -- parsing is a pure function of input, context and flags
(DESIGN.md 3.1).

System: one Python process holding all of pylatexenc's global state.  A
program is a history of parse operations against a handful of long-lived
contexts, with aborted parses as faults.  Every compared result is checked
against the same single operation executed in a process that has never
parsed anything else (a pristine fork of the worker, same hash seed) and in a
companion interpreter started under a different PYTHONHASHSEED."""
from __future__ import print_function

import json
import os
import subprocess
import sys

import core
import docgen
import dump as D
import simparse

PROP = 'C09'
MAX_CTX = 5
STATEFUL_MARKS = ['\\mv', '\\mw', '\\mz', '\\mAv', '!v', '{evv}', '\\sv', '\\sc', '\\st', '{esv}', '\\xa',
                  '\\xb', '\\xc', '\\verb', '\\lv', '{lverb}', '{verbatim}', '{lstlisting}', '{ev}']
ABORT_KINDS = ['strict_error', 'callback', 'recursion', 'interrupt']
MATHY_MARKS = ['{equation}', '{em}', '\\text', '\\mbox', '\\emph', '$', '\\(', '\\[']
MATHY_SNIPPETS = {
    'K0': [' \\begin{equation} a % c\n b \\end{equation}', ' $x \\text{y % z\n} w$', ' \\begin{align}p&q % r\n\\end{align}',
           ' \\mbox{u $v % w\n$}'],
    'K1': [' \\begin{em} a % c\n b \\end{em}', ' $x % y\n$ \\begin{em}z\\end{em}'],
    'K2': [' \\begin{em} a % c\n b \\end{em}', ' \\begin{em}\\sva{q{r}} % s\n\\end{em}'],
}

ASSUMPTIONS = [
    "a process that has imported pylatexenc and then forked is taken as equivalent to a fresh interpreter "
    "(module import executes no parse)",
    "equality is on canonical dumps: node kinds, positions, own fields, argument lists, per-node parsing-state "
    "fields, spec objects by class and name (identities are not comparable across processes); error type, "
    "position and message with addresses scrubbed",
    "a parse that exhausts the deterministic tick budget compares equal to itself (non-termination is not "
    "C09's subject); documents nested beyond the recursion limit are used only to abort, never compared",
    "interrupts land on line boundaries of pylatexenc frames only",
    "sequential histories only: no thread interleavings (no listed property states thread safety)",
]

GLOBAL_POOL_SIZE = 120


# --------------------------------------------------------------------------
# generator

def _global_pool(seed):
    pool = []
    rng = core.run_rng('C09-pool', seed, 0)
    for kind in ('K0', 'K1', 'K2'):
        for _ in range(GLOBAL_POOL_SIZE // 3):
            pool.append((kind, docgen.DocGen(rng, [kind]).document()))
    return pool


_pool_cache = {}
_PERMS = [(0, 1, 2), (0, 2, 1), (1, 0, 2), (1, 2, 0), (2, 0, 1), (2, 1, 0)]


def _orderings_program(seed, run):
    block = run // 40
    rng = core.run_rng('C09-orderings', seed, block)       # the same documents for the six runs of a block
    recipe = rng.choice([['K0'], ['K1'], ['K1'], ['K2'], ['K2'], ['K3'], ['KG']])
    g = docgen.DocGen(rng, recipe)
    docs = []
    while len(docs) < 3:
        d = g.document()
        if rng.random() < 0.3:
            d = docgen.faulty_variant(rng, d)
        if docgen.base_kind(recipe) in ('K1', 'K2') and rng.random() < 0.5 and \
           not any(m in d for m in STATEFUL_MARKS):
            d += rng.choice([' \\mv{a{b}c}', ' \\mw{p{q}r}', ' \\mz*[a[b]c]', ' \\lgs{def} % c\nx', ' \\begin{snip}[raw]$y$\\end{snip}'])
        if d not in docs:
            docs.append(d)
    tol = [rng.random() < 0.3 for _ in docs]
    ops = [['mkctx', recipe]]
    for k in _PERMS[run % 40 - 34]:
        ops.append(['parse', 0, docs[k], tol[k], ['general']])
    # ... and once more in the same order, so that every document is also parsed after all others
    for k in _PERMS[run % 40 - 34][:2]:
        ops.append(['parse', 0, docs[k], tol[k], ['general']])
    return {'batch': 'orderings', 'ops': ops}



FILLER_K0 = ['\\textbf{d@} x', '$a_{@}$ b', '\\section{S@}', 'w@ \\emph{e} % c\n', '\\begin{itemize}\\item i@\\end{itemize}',
             '\\verb|v@|', '{g@ {h}}', '\\frac{@}{2}', '\\newcommand{\\c@}[1]{x}', '\\cite[p@]{k}']
FILLER_K1 = ['\\mb{@}', '\\mv{a{@}b} t', '\\mx*[@]{q}', 'x@ \\mw{p{q}r}', '\\begin{en}[@]{m}b\\end{en}', '\\mz*|@|',
             '$m_@$ \\mr(r)', '\\lg*[@]{z}', '\\begin{ev}@{\\end{ev}', '\\defn{d@}\\defd[o]{y}', '\\mA<@>', '!v+@+']


def _alpha(n):
    out = ''
    n += 1
    while n:
        n, r = divmod(n - 1, 26)
        out = chr(97 + r) + out
    return out


NAMES_FILLER = ('\\q#a{x} \\q#b \\q#c[o] \\begin{e#d}\\q#e \\end{e#d} \\q#f \\q#g~\\q#h \\q#i \\q#j \\q#k{y} \\q#l ')


def _long_program(rng, tier, run):
    """Volume: a few hundred (thorough: thousands of) parses in one process.  A small pool of
    documents comes back again and again between many documents that are parsed only once
    (fillers), so that whatever is bounded, counted or keyed coarsely inside the library overflows,
    wraps or collides within one history.  Swarm modes: 'mixed' fillers, 'names' (a dozen names
    nobody defined per filler: thousands of distinct lookups through one database), 'contexts'
    (every filler is parsed with a context object of its own: hundreds of context objects)."""
    mode = rng.choice(['mixed', 'mixed', 'names', 'contexts'])
    if mode == 'contexts':
        recipe = rng.choice([['KD'], ['KD'], ['KT'], ['K0'], ['K1'], ['K2']])
    else:
        recipe = rng.choice([['K0'], ['K1'], ['K1'], ['K2'], ['K2'], ['K3'], ['KD'], ['KG']])
    kind = docgen.base_kind(recipe)
    k1 = kind in ('K1', 'K2')
    ops = [['mkctx', recipe]]
    recipes = [recipe]
    if rng.random() < 0.4:
        r2 = rng.choice([['K0'], ['K1'], ['K2'], ['KT'], ['KM', 0]])
        ops.append(['mkctx', r2])
        recipes.append(r2)
    g = docgen.DocGen(rng, recipe)
    pool = []
    clean = []          # well-formed documents only (the noise operations run without a step budget)
    while len(pool) < rng.randint(6, 14):
        d = g.document()
        if d not in clean:
            clean.append(d)
        if rng.random() < 0.2:
            d = docgen.faulty_variant(rng, d)
        if d not in pool:
            pool.append(d)
    if k1:
        pool += ['\\mv{a{b}c} tail', '\\mz*[a[b]c]', 'p\n\nq \\mb{r}\n\n', '\\mx*[o]{t} ~ \\my[u]{v}{w}']
    else:
        pool += ['a\n\nb \\textbf{c}\n\n', '\\section[s]{t} \\emph{u}~v', '\\title[Short]{Long} \\item[x] y']
    if tier == 'quick':
        n_ops = rng.choice([150, 250, 400, 700] if mode == 'mixed' else [300, 450, 700])
    else:
        n_ops = rng.choice([300, 600, 1200, 2500, 4000])
    fam = FILLER_K1 if k1 else FILLER_K0
    base = rng.randrange(1000)
    hows = [['filtered', {}], ['extended', [['mb', ['[', '{']]]], ['extended', [['xq', ['{']]]],
            ['extended_s', ['&&']], ['extended_s', ['~~', '!w']], ['extended_s', ['&&', '??']]]
    can_derive = kind in ('K0', 'K1', 'K2', 'K3')
    if mode == 'contexts':
        pool += ['a && b ~~ c !w ?? d', 'x&&y\n\nz ~~']
    i = 0
    while len(ops) < n_ops:
        x = rng.random()
        if x < 0.55:
            # filler: a document that was never seen before
            i += 1
            if mode == 'names' and rng.random() < 0.9:
                d = NAMES_FILLER.replace('#', _alpha(base + i))
            else:
                d = rng.choice(fam).replace('@', str(base + i)) + rng.choice(['', ' ', ' y', '\n\nz'])
            if mode == 'contexts':
                d += rng.choice(['\n\nz', '\n\n', ' w'])
                if can_derive and rng.random() < 0.7:
                    # a context object of its own for this one parse
                    ops.append(['warm', 0, d, rng.random() < 0.3, rng.choice(hows)])
                    continue
            ops.append(['warm', 0, d, rng.random() < 0.3])
        elif x < 0.60 and len(recipes) > 1:
            i += 1
            ops.append(['warm', 1, rng.choice(FILLER_K0 + FILLER_K1).replace('@', str(base + i)), rng.random() < 0.3])
        elif x < 0.63:
            ops.append(['noise', rng.choice(['latex2text', 'encode']), rng.choice(clean)])
        elif x < 0.66 and k1:
            ops.append(['abort', 0, rng.choice(pool) + '\\boom{x}', 'callback', 0])
        elif x < 0.70:
            name = rng.choice(PARSER_NAMES)
            ops.append(['parse', 0, docgen.parser_doc(rng, name), False, ['parser', name, 0, False, True]])
        elif x < 0.73 and can_derive:
            ops.append(['parse_tmp', 0, rng.choice(pool), rng.random() < 0.25, [rng.choice(hows)]])
        else:
            ops.append(['parse', 0, rng.choice(pool), rng.random() < 0.25, ['general']])
    return {'batch': 'long', 'ops': ops, 'snap_every': 25}


def generate(rng, tier, run):
    seed = int(os.environ.get('VERIF_SEED', '0') or 0)
    if run % 40 == 33:
        return _long_program(rng, tier, run)
    if seed not in _pool_cache:
        _pool_cache[seed] = _global_pool(seed)
    gpool = _pool_cache[seed]
    sel = run % 10
    batch = 'plain' if sel < 4 else 'aborts'
    if run % 40 >= 34:
        # all orderings of a small set of documents: runs 34..39 of every block of 40 parse the
        # same three documents (chosen per block) with one shared context in the six possible orders
        return _orderings_program(seed, run)
    if tier == 'thorough' and rng.random() < 0.25:
        n_ops = rng.randint(20, 60)
    else:
        n_ops = rng.randint(8, 20)
    ops = []
    recipes = []
    # contexts first (one to three), more may come later
    for _ in range(rng.randint(1, 3)):
        r = rng.choice([['K0'], ['K1'], ['K1'], ['K2'], ['K2'], ['KD'], ['K3'], ['KM', rng.randrange(3)], ['KT'], ['KG']])
        ops.append(['mkctx', r])
        recipes.append(r)
    # per-program document pool: the same documents come back at different points of the history
    docs = {}

    def pool_for(ci):
        r = recipes[ci]
        key = json.dumps(r)
        if key not in docs:
            kind = docgen.base_kind(r)
            kind2 = 'K0' if kind in ('KD', 'K3', 'KM', 'KT', 'KG') else kind
            lst = []
            for _ in range(rng.randint(2, 5)):
                if rng.random() < 0.3:
                    cands = [d for k, d in gpool if k == kind2]
                    lst.append(rng.choice(cands))
                else:
                    lst.append(docgen.DocGen(rng, r).document())
            # make sure stateful kinds are present in K1/K2 pools
            if kind in ('K1', 'K2') and not any(any(m in d for m in STATEFUL_MARKS) for d in lst):
                lst.append(rng.choice(['\\mv{a{b}c} tail', 'x \\mw{p{q}r}', '\\mz*[a[b]c]', '\\mvv{a}{b{c}}']))
            if rng.random() < 0.25:
                # deeply (but legitimately) nested documents: anything that counts nesting sees them
                d = rng.choice([30, 45, 60, 90])
                o, c = rng.choice([('{', '}'), ('{', '}'), ('\\mb{', '}'), ('$\\textbf{', '}$'), ('\\emph{', '}')])
                if d > 45 and o != '{':
                    d = 30
                lst.append(o * d + 'a' + c * d)
            if kind in ('K1', 'K2') and rng.random() < 0.4:
                # a legacy arguments parser that reports a new parsing state for some invocations only
                lst += ['\\lgs{def} % c\nx', rng.choice(['\\lgs{x} % d\ny', 'a \\lgs{y} % e\n'])]
            docs[key] = lst
        return docs[key]

    while len(ops) < n_ops:
        x = rng.random()
        ci = rng.randrange(len(recipes))
        pool = pool_for(ci)
        doc = rng.choice(pool)
        tolerant = rng.random() < 0.35
        if x < 0.04 and len(recipes) < MAX_CTX:
            r = rng.choice([['K0'], ['K1'], ['K2'], ['KD'], ['K3'], ['KM', rng.randrange(3)], ['KT'], ['KG']])
            ops.append(['mkctx', r])
            recipes.append(r)
        elif x < 0.10 and recipes[ci][0] == 'KM':
            v = rng.randrange(3)
            ops.append(['km_set', ci, v])
            recipes[ci] = ['KM', v]
        elif x < 0.10 and len(recipes) < MAX_CTX and recipes[ci][0] not in ('KD', 'KT', 'KM', 'KG'):
            r = docgen.gen_derivation(rng, recipes[ci])
            ops.append(['derive_ctx', ci, [r[0], r[2]]])
            recipes.append(r)
        elif x < 0.16:
            ops.append(['noise', rng.choice(['latex2text', 'encode']), rng.choice(pool)])
        elif x < 0.22 and docgen.base_kind(recipes[ci]) in ('K1', 'K2'):
            outer = rng.choice(['a \\nest{x} b', '\\mv{a{b}c}\\nest{y}\\mv{d{e}f}', '\\mb{\\nest{z}} \\mw{q{r}}',
                                doc + '\\nest{n}' + rng.choice(pool)])
            ops.append(['parse_nested', ci, outer, rng.choice(pool) if rng.random() < 0.75 else '@same', tolerant])
        elif x < 0.30:
            spec = rng.choice(docgen.STD_ARG_TYPES)
            kw = rng.choice([{}, {}, {'return_full_node_list': True}, {'allow_pre_space': False},
                             {'return_full_node_list': True, 'allow_pre_space': False}])
            g = docgen.DocGen(rng, ['K1'])
            d = rng.choice(['', ' ', 'x']) + g.arg(spec, 2) + rng.choice(['', ' tail', '{z}'])
            pos = 0 if d[:1] != 'x' else 1
            ops.append(['parse', ci, d, tolerant, ['stdarg', spec, kw, pos]])
        elif x < 0.34:
            pos = rng.randrange(len(doc) + 1) if doc else 0
            ops.append(['parse', ci, doc, tolerant, ['legacy', pos, gen_legacy_kw(rng)]])
        elif x < 0.37:
            pos = rng.randrange(len(doc) + 1) if doc else 0
            if rng.random() < 0.5:
                wh = rng.choice(['expression', 'braced_group', 'environment', 'maybe_optional_arg', 'token'])
                ops.append(['parse', ci, doc, tolerant, ['legacy2', wh, pos, gen_legacy_kw(rng, wh)]])
            else:
                ops.append(['parse', ci, doc, tolerant,
                            ['parser', rng.choice(['expression', 'group', 'anygroup', 'math', 'optsq', 'single']),
                             pos, rng.random() < 0.3]])
        elif x < 0.40:
            # parser objects the application keeps and hands to several parse calls (several walkers)
            name = rng.choice(PARSER_NAMES)
            for _ in range(rng.randint(2, 3)):
                d = docgen.parser_doc(rng, name)
                if rng.random() < 0.25:
                    d = docgen.faulty_variant(rng, d)
                pre = rng.choice(['', '', 'ab ', '{x}'])
                ops.append(['parse', ci, pre + d, rng.random() < 0.3,
                            ['parser', name, len(pre), rng.random() < 0.2, True]])
                if rng.random() < 0.3:
                    ops.append(['parse', ci, rng.choice(pool), rng.random() < 0.3, ['general', None, True]])
        elif x < 0.43:
            # ONE walker serves several calls (different entry points, positions, parsing states)
            d = doc if rng.random() < 0.5 else docgen.parser_doc(rng, rng.choice(PARSER_NAMES)) + ' ' + doc
            if rng.random() < 0.25:
                d = docgen.faulty_variant(rng, d)
            steps = []
            for _ in range(rng.randint(2, 5)):
                pos = rng.choice([0, 0, rng.randrange(len(d) + 1)])
                y = rng.random()
                if y < 0.3:
                    steps.append(['general'])
                elif y < 0.45:
                    steps.append(['legacy', pos, gen_legacy_kw(rng)])
                elif y < 0.6:
                    wh = rng.choice(['expression', 'braced_group', 'environment', 'maybe_optional_arg', 'token'])
                    steps.append(['legacy2', wh, pos, gen_legacy_kw(rng, wh)])
                elif y < 0.9:
                    steps.append(['parser', rng.choice(PARSER_NAMES), pos, rng.random() < 0.3, rng.random() < 0.5])
                else:
                    steps.append(['stdarg', rng.choice(docgen.STD_ARG_TYPES), {}, pos])
            if rng.random() < 0.35:
                # the pylatexenc-2 way of writing an argument parser: the same call twice on one walker,
                # first with the default parsing state, then with the caller's own (or the other way round)
                fam = rng.random()
                if fam < 0.6:
                    o, c = rng.choice([('[', ']'), ('(', ')'), ('<', '>'), ('{', '}')])
                    d = '%sfirst%s %sa%%b%s c %s d' % (o, c, o, c, c) if rng.random() < 0.6 else \
                        '%sx%s %sy $z$ \\mb{w}%s t%s' % (o, c, o, c, c)
                    kw1 = {'stop_upon_closing_brace': c}
                    p1, p2 = 1, d.index(' ') + 2
                elif fam < 0.8:
                    d = 'a %c\n\\end{en} b %d\n\\end{en}'
                    kw1 = {'stop_upon_end_environment': 'en'}
                    p1, p2 = 0, d.index('b')
                else:
                    d = 'x %c\n$ y %d\n$ z'
                    kw1 = {'stop_upon_closing_mathmode': '$'}
                    p1, p2 = 0, d.index('y')
                if rng.random() < 0.3:
                    kw1['read_max_nodes'] = rng.randint(1, 3)
                kw2 = dict(kw1, ps=rng.choice(LEGACY_PS[1:]))
                pair = [['legacy', p1, kw1], ['legacy', rng.choice([p1, p2]), kw2]]
                if rng.random() < 0.4:
                    pair.reverse()
                ops.append(['reuse', ci, d, tolerant, pair + steps[:1], False, False])
            elif rng.random() < 0.35:
                # the way a hand-written parser works: look at one place with one parser, go back, read
                # it with another (same reader, same parsing-state object)
                p0 = rng.choice([0, 0, rng.randrange(len(d) + 1)])
                steps = [['parser', rng.choice(['single', 'optstar', 'expression', 'optsq', 'anygroup']), p0, False,
                          rng.random() < 0.5],
                         ['parser', rng.choice(['general', 'single', 'expression']), p0, False, rng.random() < 0.5]] + steps[:2]
                d = rng.choice(['', ' ', '~', '*']) + d
                if rng.random() < 0.4:
                    # the text ends where an argument is still expected
                    k1x = docgen.base_kind(recipes[ci]) in ('K1', 'K2')
                    d = d + rng.choice([' \\mb', '\\mx*', ' \\my[o]', '\\fin'] if k1x else
                                       [' \\emph', '\\section', ' \\frac{a}', '\\sqrt', ' \\textbf'])
                    steps = [['general'], ['general']] + steps[:2]
                ops.append(['reuse', ci, d, tolerant, steps, True, True])
            else:
                ops.append(['reuse', ci, d, tolerant, steps, rng.random() < 0.4, rng.random() < 0.4])
        elif batch == 'aborts' and x < 0.62:
            kind = rng.choice(ABORT_KINDS)
            if kind == 'strict_error':
                ops.append(['abort', ci, docgen.faulty_variant(rng, doc), 'strict_error', 0])
            elif kind == 'callback':
                if docgen.base_kind(recipes[ci]) in ('K1', 'K2') and rng.random() < 0.35:
                    # a callback that has a visible effect and fails for this input only; the same
                    # macro is used again afterwards
                    i = rng.randrange(len(doc) + 1)
                    ops.append(['abort', ci, doc[:i] + rng.choice(['\\fin{bad}', '\\fin{}', '\\fim[o]{bad}', '\\mb{\\fin{bad}}']) + doc[i:],
                                'callback', 0])
                    ops.append(['parse', ci, rng.choice(['\\fin{ok} t', 'x \\fim[o]{fine} \\fin{y}', doc + ' \\fin{z}']),
                                rng.random() < 0.3, ['general']])
                elif rng.random() < 0.4:
                    # the callback fails deep inside nested structure
                    d = rng.choice([10, 25, 40])
                    o, c = rng.choice([('{', '}'), ('\\mb{', '}'), ('\\mx*[', ']{z}')])
                    ops.append(['abort', ci, o * d + '\\boom{x}' + c * d, 'callback', 0])
                else:
                    i = rng.randrange(len(doc) + 1)
                    ops.append(['abort', ci, doc[:i] + '\\boom{x}' + doc[i:], 'callback', 0])
            elif kind == 'recursion':
                n = rng.choice([400, 1500, 5000])
                o, c = rng.choice([('{', '}'), ('\\mb{', '}'), ('\\mv{', '}'), ('$\\mb{', '}$')])
                ops.append(['abort', ci, doc + o * n + 'a' + c * n, 'recursion', 0])
            else:
                st = [d for d in pool if any(m in d for m in STATEFUL_MARKS)]
                if st and rng.random() < 0.6:
                    doc = rng.choice(st)
                if rng.random() < 0.25:
                    d = rng.choice([20, 40, 60])
                    doc = '{' * d + 'a \\mb{b}' + '}' * d
                if rng.random() < 0.3:
                    name = rng.choice(PARSER_NAMES)
                    d5 = docgen.parser_doc(rng, name)
                    if rng.random() < 0.5:
                        inner = ['parse', 0, d5, False, ['parser', name, 0, False, True]]
                    else:
                        inner = ['reuse', 0, d5 + ' ' + doc, False,
                                 [['parser', name, 0, False, True], ['general'], ['legacy', 0, gen_legacy_kw(rng)]], True, True]
                    ops.append(['abort', ci, inner[2], 'interrupt', rng.randint(1, 40 * len(inner[2]) + 60), inner])
                    # ... and the same pooled parser object again afterwards
                    ops.append(['parse', ci, docgen.parser_doc(rng, name), False, ['parser', name, 0, False, True]])
                else:
                    ops.append(['abort', ci, doc, 'interrupt', rng.randint(1, 70 * len(doc) + 60)])
        elif x < 0.645:
            mathy = [d for d in pool if any(m in d for m in MATHY_MARKS)]
            d2 = rng.choice(mathy) if mathy and rng.random() < 0.8 else doc
            if rng.random() < 0.5:
                d2 = d2 + rng.choice(MATHY_SNIPPETS.get(docgen.base_kind(recipes[ci]), MATHY_SNIPPETS['K0']))
            # a user's LatexWalker subclass with its own parsing-state event handler, and
            # (usually right after or before) the plain walker on the same document
            ops.append(['parse', ci, d2, tolerant, ['general', 'nocomments-in-math']])
            if rng.random() < 0.7:
                ops.append(['parse', ci, d2, tolerant, ['general']])
        elif x < 0.648 and docgen.base_kind(recipes[ci]) in ('K0', 'K1', 'K2', 'K3') and recipes[ci][0] != 'extended':
            # several short-lived contexts derived from one long-lived context, each used for one parse
            k1 = docgen.base_kind(recipes[ci]) in ('K1', 'K2')
            dd = ['\\begin{xs}\\step[x]{mix}\\mb{a}[b]\\end{xs} \\step{y}', '\\begin{xa}\\xam[o]{a}{b} \\mb[c]{d}\\end{xa}',
                  '\\begin{xb}\\xam{p}{q}\\begin{xs}\\step{s}\\mb{e}\\end{xs}\\end{xb}', '\\defs{x} a~~b', doc] if k1 else \
                 ['\\begin{equation}a % c\n\\end{equation}', '\\newcommand{\\foo}[1]{x} \\foo{y}', doc, doc]
            # the short-lived contexts differ in what \mb means, so that definitions picked up from
            # the wrong one show
            hows = [['filtered', {}], ['extended', [['mb', ['[', '{']]]], ['extended', [['mb', []]]],
                    ['extended', [['xq', ['{']]]], ['filtered', {'exclude_categories': ['k1-legacy', 'natbib']}],
                    ['extended', [['mb', ['{', '[']], ['step', ['{']]]]]
            d3 = rng.choice(dd)
            ops.append(['parse_tmp', ci, d3, tolerant, [rng.choice(hows) for _ in range(rng.randint(2, 4))]])
            if rng.random() < 0.5:
                ops.append(['parse_tmp', ci, rng.choice(dd), tolerant, [rng.choice(hows) for _ in range(rng.randint(2, 3))]])
        elif x < 0.652 and docgen.base_kind(recipes[ci]) in ('K1', 'K2'):
            # pairs of documents that use one spec object in two different ways
            fam = rng.randrange(4)
            if fam == 3:
                # definitions made while parsing (macros, environments *and specials*) must stay
                # inside that parse
                ops.append(['parse', ci, rng.choice(['{\\defs{x} a~~b &&{c}}', '\\defs{y} ~~ !w', '\\defn{x}\\defd{y}']),
                            tolerant, ['general']])
                ops.append(['parse', ci, rng.choice(['a~~b && c !w', '~~~ &&{q} \\defd{z}', '\\begin{denv}[o]z\\end{denv} ~~']),
                            rng.random() < 0.4, ['general']])
            elif fam == 0:
                # the same inner environment inside two different outer environments that extend
                # the context (the delta objects live on the spec objects)
                inner = rng.choice(['\\begin{xs}\\step[x]{mix}\\xam{p}{q}\\end{xs}',
                                    '\\begin{xs}[o]\\xam[t]{u}{v} \\xbm{c}{d}\\end{xs}'])
                outers = ['xa', 'xb']
                rng.shuffle(outers)
                for o in outers:
                    ops.append(['parse', ci, 'a \\begin{%s}%s\\end{%s} b' % (o, inner, o), tolerant, ['general']])
            elif fam == 1:
                # an environment whose body parser depends on the arguments of the occurrence
                body = rng.choice(['\\mb{x} $y$ %c\n', '\\mv{a{b}} z', 'plain'])
                pair = ['\\begin{snip}[raw]%s\\end{snip}' % body, '\\begin{snip}%s\\end{snip} t' % body]
                rng.shuffle(pair)
                for d3 in pair:
                    ops.append(['parse', ci, d3, tolerant, ['general']])
            else:
                # specs built by the helper constructors, declared differently in two recipes
                other = ['K2'] if docgen.base_kind(recipes[ci]) == 'K1' else ['K1']
                cj = None
                for j, r in enumerate(recipes):
                    if r == other:
                        cj = j
                if cj is None and len(recipes) < MAX_CTX:
                    ops.append(['mkctx', other])
                    recipes.append(other)
                    cj = len(recipes) - 1
                d3 = rng.choice(['\\begin{se}[o]{m}a_b % e\n\\end{se}', '\\begin{se}{m}$x$ y\\end{se}', '\\smm*[o]{a}{b}'])
                ops.append(['parse', ci, d3, tolerant, ['general']])
                if cj is not None:
                    ops.append(['parse', cj, d3, tolerant, ['general']])
        elif x < 0.655:
            # an argument that is looked for but not there (after skipped comments / white space),
            # then a document in which the next argument is missing altogether
            k1 = docgen.base_kind(recipes[ci]) in ('K1', 'K2')
            m = rng.choice(['\\mb', '\\mm', '\\mx*', '\\my[o]']) if k1 else \
                rng.choice(['\\textbf', '\\emph', '\\textit', '\\sqrt[3]'])
            a = rng.choice(['{%s %% c\n} tail', 'x {%s  \n } y', '%s %% d\n', '$%s %% e\n$ z', '[%s %%f\n]']) % m
            b = rng.choice(['see %s', 'a {b} %s', '%s', '{%s}', 'p %s %% g'])  % m
            t2 = rng.random() < 0.5
            ops.append(['parse', ci, a, t2, ['general']])
            if rng.random() < 0.3:
                ops.append(['noise', 'encode', 'x'])
            ops.append(['parse', ci, b, rng.random() < 0.5, ['general']])
        elif x < 0.66:
            ops.append(['parse', ci, docgen.token_soup(rng), tolerant, ['general']])
        elif x < 0.70:
            bad = docgen.faulty_variant(rng, doc)
            ops.append(['parse', ci, bad, tolerant, ['general']])
            if rng.random() < 0.5:
                # the same text again, by a walker that reports positions with other offsets
                fl = rng.choice([{'line_number_offset': 10}, {'first_line_column_offset': 4},
                                 {'column_offset': 2, 'line_number_offset': 3}, {}])
                ops.append(['parse', ci, bad, False, ['general'], fl])
                if rng.random() < 0.5:
                    ops.append(['parse', ci, bad, False, ['general']])
        else:
            ops.append(['parse', ci, doc, tolerant, ['general']])
            if rng.random() < 0.04:
                ops.append(['noise', 'gc', ''])
    prog = {'batch': batch, 'ops': ops}
    g = rng.random()
    if g < 0.08:
        prog['gc'] = 'off'
    elif g < 0.16:
        prog['gc'] = 'eager'
    return prog


# --------------------------------------------------------------------------
# executing one operation against a context object (history and reference)

def _walker(ctx, recipe_kind, doc, tolerant, custom=None, flags=None):
    kw = {'tolerant_parsing': tolerant}
    if flags:
        kw.update(flags)                 # line_number_offset, first_line_column_offset, column_offset
    if custom:
        kw['sim_custom'] = custom        # a walker subclass with its own parsing-state event handler
    if recipe_kind == 'KD':
        return simparse.make_walker(doc, **kw)
    if recipe_kind in ('KM', 'KG'):
        # pylatexenc-1 style: a long-lived macro dictionary given to every walker
        return simparse.make_walker(doc, macro_dict=ctx, **kw)
    if recipe_kind == 'KT':
        # ... or a temporary dictionary built inline for this one walker
        return simparse.make_walker(doc, macro_dict=docgen.macro_dict_variant(len(doc)), **kw)
    return simparse.make_walker(doc, latex_context=ctx, **kw)


def _guarded(fn):
    from pylatexenc.latexnodes import LatexWalkerError
    try:
        return fn()
    except LatexWalkerError as e:
        return D.dump_error(e)
    except simparse.SimBudget:
        return dict(simparse.BUDGET)
    except docgen.SimCallbackError:
        return {'error': 'SimCallbackError'}
    except RecursionError:
        return {'error': 'RecursionError'}
    except Exception as e:
        return {'error': 'EXC:' + type(e).__name__, 'msg': D.scrub(str(e))}


KEEP = {'on': False, 'items': []}     # history process only: results kept alive for a final re-dump


def parse_general(ctx, kind, doc, tolerant, clock=None, custom=None, flags=None):
    from pylatexenc.latexnodes.parsers import LatexGeneralNodesParser
    w = _walker(ctx, kind, doc, tolerant, custom, flags)

    def go():
        nodes, delta = w.parse_content(LatexGeneralNodesParser())
        res = D.Dumper().result(nodes, delta)
        if KEEP['on'] and len(KEEP['items']) < 40:
            KEEP['items'].append([nodes, delta, res, doc])
        return res
    res = _guarded(go)
    if clock is not None:
        clock[0] += w.sim_clock[0]
    return res


POOL = {}          # history process only: parser objects an application keeps and reuses


def _make_parser(name):
    from pylatexenc.latexnodes import parsers as P
    from pylatexenc import macrospec
    return {
        'expression': lambda: P.LatexExpressionParser(),
        'group': lambda: P.LatexDelimitedGroupParser(delimiters=('{', '}')),
        'anygroup': lambda: P.LatexDelimitedGroupParser(delimiters=None, optional=True),
        'math': lambda: P.LatexMathParser(math_mode_delimiters=None),
        'optsq': lambda: P.LatexOptionalSquareBracketsParser(),
        'single': lambda: P.LatexSingleNodeParser(),
        'general': lambda: P.LatexGeneralNodesParser(),
        'verbdelim': lambda: P.LatexDelimitedVerbatimParser(),
        'verbbrace': lambda: P.LatexDelimitedVerbatimParser(delimiters=('{', '}')),
        'charsgroup': lambda: P.LatexCharsGroupParser(),
        'commalist': lambda: P.LatexCharsCommaSeparatedListParser(),
        'multidelim': lambda: P.LatexDelimitedMultiDelimGroupParser(),
        'optstar': lambda: P.LatexOptionalCharsMarkerParser(['*', '+']),
        'tackon': lambda: P.LatexTackOnInformationFieldMacrosParser(['label', 'tag'], allow_multiple=['tag']),
        'stdarg-v': lambda: P.LatexStandardArgumentParser('v'),
        'stdarg-o': lambda: P.LatexStandardArgumentParser('o', return_full_node_list=True),
        'argsparser': lambda: macrospec.LatexArgumentsParser(['s', 'o', 'm', 'v']),
        'envbody': lambda: macrospec.LatexEnvironmentBodyContentsParser('en'),
        'verbenv': lambda: P.LatexVerbatimEnvironmentContentsParser(environment_name='ev'),
    }[name]()


PARSER_NAMES = ['expression', 'group', 'anygroup', 'math', 'optsq', 'single', 'general', 'verbdelim', 'verbbrace',
                'charsgroup', 'commalist', 'multidelim', 'optstar', 'tackon', 'stdarg-v', 'stdarg-o', 'argsparser',
                'envbody', 'verbenv']


def _get_parser(name, shared):
    if not shared:
        return _make_parser(name)
    if name not in POOL:
        POOL[name] = _make_parser(name)
    return POOL[name]


def _legacy_kw(w, kw, pss):
    """Keyword arguments of a legacy call; 'ps' stands for a parsing state made by the walker with
    those fields (or, with shared state objects, the shared one when no fields are asked for)."""
    kw = dict(kw or {})
    ps = kw.pop('ps', None)
    if ps is not None:
        kw['parsing_state'] = w.make_parsing_state(**ps) if ps or not pss else pss[False]
    return kw


LEGACY_PS = [{}, {'enable_comments': False}, {'in_math_mode': True}, {'enable_environments': False},
             {'enable_groups': True, 'latex_group_delimiters': [['{', '}'], ['[', ']']]}]


def gen_legacy_kw(rng, which=None):
    """Flag combinations of the pylatexenc-2 entry points."""
    kw = {}
    if which is None:
        x = rng.random()
        if x < 0.3:
            kw['stop_upon_closing_brace'] = rng.choice(['}', ']', ')', '>'])
        elif x < 0.4:
            kw['stop_upon_end_environment'] = rng.choice(['en', 'itemize', 'equation', 'em'])
        elif x < 0.5:
            kw['stop_upon_closing_mathmode'] = rng.choice(['$', '$$', '\\)', '\\]'])
        if rng.random() < 0.3:
            kw['read_max_nodes'] = rng.randint(1, 3)
    elif which == 'expression':
        if rng.random() < 0.4:
            kw['strict_braces'] = rng.random() < 0.5
    elif which == 'braced_group':
        if rng.random() < 0.5:
            kw['brace_type'] = rng.choice(['{', '[', '(', '<'])
    elif which == 'environment':
        if rng.random() < 0.4:
            kw['environmentname'] = rng.choice(['en', 'itemize', 'equation', 'em', 'nosuch'])
    elif which == 'token':
        if rng.random() < 0.5:
            kw['include_brace_chars'] = rng.choice([[['[', ']']], [['<', '>'], ['(', ')']]])
        if rng.random() < 0.3:
            kw['environments'] = False
    if rng.random() < 0.4:
        kw['ps'] = rng.choice(LEGACY_PS)
    return kw


def _entry_fn(w, entry, tr=None, pss=None):
    """A closure that makes one parse call on walker w (token reader tr when given, else a new one;
    parsing-state objects pss = {math?: state} when given, else made by the walker per call)."""
    def reader(pos):
        if tr is None:
            return w.make_token_reader(pos=pos)
        tr.move_to_pos_chars(pos)
        return tr
    if entry[0] == 'general':
        def go():
            parser = _get_parser('general', len(entry) > 2 and entry[2])
            nodes, delta = w.parse_content(parser, token_reader=reader(0), parsing_state=pss[False] if pss else None)
            return D.Dumper().result(nodes, delta)
    elif entry[0] == 'legacy':
        def go():
            kw = _legacy_kw(w, entry[2] if len(entry) > 2 else None, pss)
            r = w.get_latex_nodes(pos=entry[1], **kw)
            nodes, p, ln = r
            return {'legacy': D.Dumper().result(nodes), 'pos': p, 'len': ln}
    elif entry[0] == 'legacy2':
        def go():
            which, pos = entry[1], entry[2]
            kw = _legacy_kw(w, entry[3] if len(entry) > 3 else None, pss)
            if which == 'token':
                return {'token': D.dump_token(w.get_token(pos, **kw))}
            fn = {'expression': w.get_latex_expression, 'braced_group': w.get_latex_braced_group,
                  'environment': w.get_latex_environment,
                  'maybe_optional_arg': w.get_latex_maybe_optional_arg}[which]
            r = fn(pos, **kw)
            if r is None:
                return {'legacy2': None}
            nodes, p, ln = r
            return {'legacy2': D.Dumper().result(nodes), 'pos': p, 'len': ln}
    elif entry[0] == 'parser':
        def go():
            name, pos, math = entry[1], entry[2], entry[3]
            parser = _get_parser(name, len(entry) > 4 and entry[4])
            t = reader(pos)
            if pss:
                ps = pss[bool(math)]
            else:
                ps = w.make_parsing_state(in_math_mode=True) if math else None
            nodes, delta = w.parse_content(parser, token_reader=t, parsing_state=ps)
            return dict(D.Dumper().result(nodes, delta), end_pos=t.cur_pos())
    elif entry[0] == 'stdarg':
        def go():
            from pylatexenc.latexnodes.parsers import get_standard_argument_parser
            parser = get_standard_argument_parser(entry[1], **entry[2])
            t = reader(entry[3])
            nodes, delta = w.parse_content(parser, token_reader=t, parsing_state=pss[False] if pss else None)
            return dict(D.Dumper().result(nodes, delta), end_pos=t.cur_pos())
    else:
        raise core.HarnessError("unknown entry %r" % (entry,))
    return go


def do_op(ctx, kind, op, clock=None):
    """Execute a parse / parse_nested operation; returns the canonical dump."""
    if op[0] == 'parse_tmp':
        # a context derived for this one parse and dropped afterwards (its address may be reused
        # by the next one); spec objects are shared with the long-lived parent
        import gc
        _, _, doc, tolerant, hows = op
        keep_was = KEEP['on']
        KEEP['on'] = False           # nothing may keep a temporary context alive
        out = []
        try:
            for how in hows:
                # back to back: derive, parse, drop -- the next context is likely to get the
                # address of the one just dropped
                tmp = docgen.derive_context(ctx, [how[0], None, how[1]])
                out.append(parse_general(tmp, kind, doc, tolerant, clock))
                del tmp
                gc.collect()
        finally:
            KEEP['on'] = keep_was
        return out
    if op[0] == 'parse':
        doc, tolerant, entry = op[2], op[3], op[4]
        flags = op[5] if len(op) > 5 else None
        if entry[0] == 'general' and not (len(entry) > 2 and entry[2]):
            return parse_general(ctx, kind, doc, tolerant, clock, entry[1] if len(entry) > 1 else None, flags)
        w = _walker(ctx, kind, doc, tolerant, None, flags)
        res = _guarded(_entry_fn(w, entry))
        if clock is not None:
            clock[0] += w.sim_clock[0]
        return res
    if op[0] == 'reuse':
        # ONE walker (and, when asked, one token reader) serves several parse calls
        _, _, doc, tolerant, steps, share_reader = op[:6]
        share_state = len(op) > 6 and op[6]
        w = _walker(ctx, kind, doc, tolerant, None, None)
        tr = w.make_token_reader() if share_reader else None
        # ... and, when asked, one parsing-state object per mode for all calls
        pss = {False: w.make_parsing_state(), True: w.make_parsing_state(in_math_mode=True)} if share_state else None
        out = []
        for entry in steps:
            w.sim_clock[0] = 0               # the step budget is per call, as for a fresh walker
            out.append(_guarded(_entry_fn(w, entry, tr, pss)))
            if clock is not None:
                clock[0] += w.sim_clock[0]
        return out
    if op[0] == 'parse_nested':
        _, _, outer, inner, tolerant = op
        docgen.NESTED['inner'] = inner
        docgen.NESTED['results'] = []
        docgen.NESTED['parse_fn'] = lambda c, s: parse_general(ctx, kind, s, tolerant, clock)
        docgen.NESTED['busy'] = False

        def same_walker(w):
            from pylatexenc.latexnodes.parsers import LatexGeneralNodesParser
            saved = list(w.sim_clock)
            w.sim_clock[0] = 0

            def go():
                nodes, delta = w.parse_content(LatexGeneralNodesParser())
                return D.Dumper().result(nodes, delta)
            try:
                return _guarded(go)
            finally:
                w.sim_clock[0] = saved[0]
        docgen.NESTED['same_fn'] = same_walker
        try:
            res = parse_general(ctx, kind, outer, tolerant, clock)
            return {'outer': res, 'nested': list(docgen.NESTED['results'])}
        finally:
            docgen.NESTED['inner'] = None
            docgen.NESTED['parse_fn'] = None
    raise core.HarnessError("do_op: %r" % (op,))


def context_snapshot(ctx):
    """Public-API snapshot of a context database (identities included: same process)."""
    if ctx is None:
        return None
    if not hasattr(ctx, 'categories'):
        # legacy macro dictionary: parsing must not change it either
        return {'macro_dict': sorted((k, id(v)) for k, v in ctx.items())}
    snap = {'categories': list(ctx.categories()), 'specs': {}, 'unknown': []}
    iters = {'macros': ctx.iter_macro_specs, 'environments': ctx.iter_environment_specs,
             'specials': ctx.iter_specials_specs}
    attr = {'macros': 'macroname', 'environments': 'environmentname', 'specials': 'specials_chars'}
    for cat in snap['categories']:
        for kind in ('macros', 'environments', 'specials'):
            lst = []
            for spec in iters[kind](categories=[cat]):
                args = []
                for a in (getattr(spec, 'arguments_spec_list', None) or []):
                    p = getattr(a, 'parser', a)
                    args.append([getattr(a, 'argname', None),
                                 p if isinstance(p, str) else type(p).__name__ + '@%d' % id(p)])
                lst.append([getattr(spec, attr[kind], None), id(spec), type(spec).__name__, args])
            snap['specs'][cat + '/' + kind] = lst
    # what lookups answer (the database keeps precedence twice: category list and chain maps)
    getters = {'macros': ctx.get_macro_spec, 'environments': ctx.get_environment_spec,
               'specials': ctx.get_specials_spec}
    look = {}
    for key, lst in snap['specs'].items():
        kind = key.rsplit('/', 1)[1]
        for entry in lst:
            name = entry[0]
            if isinstance(name, str) and (kind, name) not in look:
                look[(kind, name)] = id(getters[kind](name))
    snap['lookups'] = sorted([k[0], k[1], v] for k, v in look.items())
    snap['specials_probe'] = [id(ctx.test_for_specials(p, i))
                              for p in ("~~``''&&--!w", "a\n\n!v``` ?`!`---") for i in range(len(p))]
    for name in ('get_macro_spec', 'get_environment_spec', 'get_specials_spec'):
        u = getattr(ctx, name)('\0no-such-name\0')
        snap['unknown'].append(None if u is None else id(u))
    return snap


def shared_state_signature():
    from pylatexenc.latexnodes.parsers import _stdarg
    items = []
    cache = getattr(_stdarg, '_std_arg_parser_instances', None) or {}      # coverage only: may be renamed
    for k in sorted(cache, key=repr):
        inst = cache[k]
        inner = getattr(inst, '_arg_parser', None)
        scal = {}
        if inner is not None:
            for a, v in sorted(vars(inner).items()):
                if isinstance(v, (int, str, bool, type(None))):
                    scal[a] = v
        items.append([repr(k), inner is not None, scal])
    return core.short_digest(items)


# --------------------------------------------------------------------------
# history process

def execute(program):
    stats = core.Counters()
    ctxs = []       # [ctx, recipe]
    trace = []
    sigs = set()
    clock = [0]
    violation = None
    repo = core.repo_path()
    KEEP['on'] = True
    KEEP['items'] = []
    if program.get('gc'):
        # the collector's schedule is part of the environment: never (cyclic garbage stays, addresses
        # are not reused), or far more eagerly than by default
        import gc
        if program['gc'] == 'off':
            gc.disable()
        else:
            gc.set_threshold(40, 2, 2)
        stats.inc('probe:collector-schedule-' + program['gc'])
    kept_from = {}
    snap_last = None
    for opi, op in enumerate(program['ops']):
        for it in KEEP['items']:
            kept_from.setdefault(id(it), opi - 1)
        kind = op[0]
        if kind == 'mkctx':
            if len(ctxs) < MAX_CTX:
                ctxs.append([docgen.build_context(op[1]), list(op[1])])
                stats.inc('op:mkctx-' + op[1][0])
            trace.append({'op': 'mkctx'})
            continue
        if kind == 'km_set':
            # the application replaces entries of its long-lived macro dictionary in place
            if ctxs:
                c = ctxs[op[1] % len(ctxs)]
                if c[1][0] == 'KM':
                    c[0].update(docgen.macro_dict_variant(op[2]))
                    c[1] = ['KM', op[2]]
                    snap_last = None
                    stats.inc('op:km_set')
            trace.append({'op': 'km_set'})
            continue
        if not ctxs:
            trace.append({'op': kind, 'skipped': True})
            continue
        if kind == 'noise':
            try:
                if op[1] == 'gc':
                    import gc
                    gc.collect()
                elif op[1] == 'latex2text':
                    from pylatexenc.latex2text import LatexNodes2Text
                    LatexNodes2Text().latex_to_text(op[2])
                else:
                    from pylatexenc.latexencode import unicode_to_latex
                    unicode_to_latex(op[2] + u' éα')
            except simparse.SimBudget:
                pass
            except Exception:
                pass
            stats.inc('op:noise-' + op[1])
            trace.append({'op': 'noise'})
            continue
        ci = op[1] % len(ctxs)
        ctx, recipe = ctxs[ci]
        rkind = docgen.base_kind(recipe)
        if kind == 'derive_ctx':
            if len(ctxs) >= MAX_CTX or ctx is None or not hasattr(ctx, 'categories'):
                trace.append({'op': kind, 'skipped': True})
                continue
            new_recipe = [op[2][0], recipe, op[2][1]]
            before = [context_snapshot(c) for c, _ in ctxs]
            try:
                new = docgen.derive_context(ctx, new_recipe)
            except Exception as e:
                trace.append({'op': kind, 'failed': type(e).__name__})
                continue
            after = [context_snapshot(c) for c, _ in ctxs]
            ctxs.append([new, new_recipe])
            stats.inc('op:derive_ctx-' + op[2][0])
            trace.append({'op': kind, 'ctx_changed': [i for i in range(len(before)) if before[i] != after[i]]})
            continue
        snap_every = int(program.get('snap_every') or 1)
        snap_now = (snap_every <= 1) or (opi % snap_every == 0) or opi >= len(program['ops']) - 2
        if snap_every <= 1 or snap_last is None or len(snap_last) != len(ctxs):
            before = [context_snapshot(c) for c, _ in ctxs]
        else:
            before = snap_last      # the last sample: whatever changed since shows at the next sample
        rec = {'op': kind, 'ctx': ci, 'recipe': list(recipe)}
        if kind == 'warm':
            # history only: a parse whose result is not looked at
            if len(op) > 4 and hasattr(ctx, 'categories'):
                do_op(ctx, rkind, ['parse_tmp', 0, op[2], op[3], [op[4]]], clock)
                stats.inc('op:warm-own-context')
            else:
                do_op(ctx, rkind, ['parse', 0, op[2], op[3], ['general']], clock)
            stats.inc('op:warm')
            if snap_now:
                after = [context_snapshot(c) for c, _ in ctxs]
                rec['ctx_changed'] = [i for i in range(min(len(before), len(after))) if before[i] != after[i]]
                snap_last = after
            trace.append(rec)
            continue
        if kind == 'parse_tmp' and (ctx is None or not hasattr(ctx, 'categories')):
            trace.append({'op': kind, 'skipped': True})
            continue
        if kind in ('parse', 'parse_nested', 'parse_tmp', 'reuse'):
            rec['request'] = [op[0], 0] + list(op[2:])
            rec['result'] = do_op(ctx, rkind, op, clock)
            rec['compare'] = True
            stats.inc('op:' + kind + ('-' + op[4][0] if kind == 'parse' else ''))
            if kind == 'parse_tmp' and isinstance(rec['result'], dict) and rec['result'].get('error') == 'EXC:ValueError':
                pass
            if op[0] == 'parse' and op[3]:
                stats.inc('probe:tolerant-parse')
            if kind == 'reuse':
                stats.inc('probe:walker-reused-for-%d-calls' % min(len(op[4]), 4))
                if op[5]:
                    stats.inc('probe:token-reader-reused')
                if len(op) > 6 and op[6]:
                    stats.inc('probe:parsing-state-object-reused')
            ent = op[4] if kind == 'parse' else None
            if ent and ((ent[0] == 'parser' and len(ent) > 4 and ent[4]) or (ent[0] == 'general' and len(ent) > 2 and ent[2])):
                stats.inc('probe:pooled-parser-object-used')
            if rec['result'] == simparse.BUDGET or (isinstance(rec['result'], dict) and
                                                    rec['result'].get('outer') == simparse.BUDGET):
                stats.inc('probe:budget-exhausted')
        elif kind == 'abort':
            _, _, doc, akind, k = op[:5]
            # what is aborted: a plain general parse, or (6th element) a call on a pooled parser object /
            # a sequence of calls on one walker
            inner = op[5] if len(op) > 5 else ['parse', 0, doc, False, ['general']]
            if len(op) > 5:
                stats.inc('probe:abort-inside-reused-object-call')
            stats.inc('op:abort-' + akind)
            stats.inc('fault-armed:' + akind)
            fired = False
            if akind == 'interrupt':
                it = simparse.Interrupter(k, repo)
                res = None
                try:
                    with it:
                        res = do_op(ctx, rkind, inner, clock)
                except BaseException as e:
                    if not it.fired:
                        raise
                    rec['escaped'] = type(e).__name__
                fired = it.fired
                stats.inc('ticks-line-events', it.events)
                if fired:
                    rec['fired_at'] = it.fired_at
                    stats.inc('probe:interrupt-in-' + it.fired_at[0])
                    if rec.get('escaped') != 'SimInterrupt':
                        stats.inc('probe:interrupt-replaced-by-other-exception')
                else:
                    # the parse ended before the k-th event: an ordinary, comparable parse
                    stats.inc('probe:interrupt-armed-but-parse-ended-first')
                    rec['request'] = [inner[0], 0] + list(inner[2:])
                    rec['result'] = res
                    rec['compare'] = True
                    rec['op'] = inner[0]          # compared like the operation it turned out to be
            else:
                res = do_op(ctx, rkind, ['parse', 0, doc, False, ['general']], clock)
                err = res.get('error') if isinstance(res, dict) else None
                if akind == 'strict_error':
                    fired = bool(err) and err not in ('SimCallbackError', 'RecursionError')
                    # a strict-mode failure is itself a pure function of the input: compare it too
                    rec['request'] = ['parse', 0, doc, False, ['general']]
                    rec['result'] = res
                    rec['compare'] = True
                elif akind == 'callback':
                    fired = err == 'SimCallbackError'
                    if not fired:
                        rec['request'] = ['parse', 0, doc, False, ['general']]
                        rec['result'] = res
                        rec['compare'] = True
                elif akind == 'recursion':
                    fired = err == 'RecursionError'
                    if fired:
                        stats.inc('probe:RecursionError-raised')
            if fired:
                stats.inc('fault-fired:' + akind)
            rec['fired'] = fired
        else:
            raise core.HarnessError("unknown op %r" % (op,))
        if snap_now:
            after = [context_snapshot(c) for c, _ in ctxs]
            changed = [i for i in range(min(len(before), len(after))) if before[i] != after[i]]
            snap_last = after
        else:
            changed = []
        rec['ctx_changed'] = changed
        doc_s = op[2] if isinstance(op[2], str) else ''
        rec['stateful'] = any(m in doc_s for m in STATEFUL_MARKS) or \
            (kind == 'parse' and op[4][0] == 'stdarg' and op[4][1].startswith('v'))
        sigs.add(shared_state_signature())
        trace.append(rec)
    stats.inc('ticks', clock[0])
    # results handed out earlier must not have been altered by anything that happened later
    KEEP['on'] = False
    altered = None
    for it in KEEP['items']:
        nodes, delta, res, doc = it
        try:
            again = D.Dumper().result(nodes, delta)
        except Exception as e:
            again = {'error': 'EXC:' + type(e).__name__}
        stats.inc('earlier-results-redumped')
        if again != res and altered is None:
            altered = {'op_index': kept_from.get(id(it), len(program['ops']) - 1), 'doc': doc,
                       'before': res, 'after': again}
    return {'trace': trace, 'stats': stats, 'sigs': sorted(sigs), 'altered': altered}


def reference_single(recipe, request):
    """Runs in a process that has never parsed anything: build the context from
    its recipe, execute that single operation."""
    kind = docgen.base_kind(recipe)
    ctx = docgen.build_context(recipe)
    return do_op(ctx, kind, request)


# --------------------------------------------------------------------------
# worker side: history child + references

class Companion(object):
    """Reference server in another interpreter under a different PYTHONHASHSEED."""

    def __init__(self, hashseed):
        env = dict(os.environ)
        env['PYTHONHASHSEED'] = str(hashseed)
        env['VERIF_REPO'] = core.repo_path()
        env['PYTHONPYCACHEPREFIX'] = os.path.join(core.VERIF_DIR, '.no-pycache')
        env['PYTHONDONTWRITEBYTECODE'] = '1'
        self.hashseed = hashseed
        self.proc = subprocess.Popen(core.no_aslr_prefix() + [core.PYTHON, '-B', os.path.join(core.SIM_DIR, 'oracle.py')],
                                     stdin=subprocess.PIPE, stdout=subprocess.PIPE, env=env)

    def send(self, recipe, request):
        self.proc.stdin.write((json.dumps([recipe, request]) + '\n').encode('utf-8'))
        self.proc.stdin.flush()

    def recv(self):
        line = self.proc.stdout.readline()
        if not line:
            raise core.HarnessError("companion reference server died")
        rep = json.loads(line.decode('utf-8'))
        if rep[0] != 'ok':
            raise core.HarnessError("companion reference server: %s" % (rep[1],))
        return rep[1]

    def ask(self, recipe, request):
        self.send(recipe, request)
        return self.recv()

    def close(self):
        try:
            self.proc.stdin.close()
            self.proc.wait(timeout=5)
        except Exception:
            self.proc.kill()


def _prefetch(env, wanted, stats):
    """Resolve all reference answers a program needs: the companion works on its
    queue while this process does the same-hash-seed pristine forks."""
    cache = env.cache.setdefault('c09-ref', {})
    if len(cache) > 20000:
        cache.clear()
    if 'c09-companion' not in env.cache:
        hs = (int(env.hashseed or 0) + 7) if str(env.hashseed or '0').isdigit() else 7
        env.cache['c09-companion'] = Companion(hs)
    comp = env.cache['c09-companion']
    todo = []
    seen = set()
    for recipe, request in wanted:
        key = core.canon([recipe, request])
        if key in cache:
            stats.inc('reference-cache-hits')
        elif key not in seen:
            seen.add(key)
            todo.append((key, recipe, request))
    # keep the amount of unread companion output bounded: windows of 8 requests
    for i in range(0, len(todo), 8):
        win = todo[i:i + 8]
        for key, recipe, request in win:
            comp.send(recipe, request)
        local = [env.pristine(reference_single, recipe, request) for key, recipe, request in win]
        for (key, recipe, request), a in zip(win, local):
            cache[key] = (a, comp.recv())
            stats.inc('reference-forks', 2)


def _references(env, recipe, request, stats):
    key = core.canon([recipe, request])
    cache = env.cache.setdefault('c09-ref', {})
    if key not in cache:
        _prefetch(env, [(recipe, request)], stats)
    return cache[key]


def _fresh_entry(entry):
    """The same call as the reference makes it: a parser object of its own (in a fresh interpreter the
    pool is empty anyway; dropping the flag lets pooled and unpooled requests share one reference)."""
    if entry[0] == 'parser' and len(entry) > 4:
        return list(entry[:4])
    if entry[0] == 'general' and len(entry) > 2:
        return list(entry[:2]) if entry[1] else ['general']
    return entry


def _fresh_request(request):
    if request[0] == 'parse':
        return request[:4] + [_fresh_entry(request[4])] + request[5:]
    return request


def is_recursion(res):
    s = json.dumps(res)
    return '"RecursionError"' in s


def run_program(program, env):
    out = env.pristine(execute, program)
    stats = core.Counters(out['stats'])
    trace = out['trace']
    violation = None
    stateful_positions = []
    wanted = []
    for i, rec in enumerate(trace):
        if rec.get('op') == 'parse_tmp' and rec.get('compare'):
            # every temporary context is referenced on its own (a fresh process that derives one
            # context and parses once)
            rq = rec['request']
            for how in rq[4]:
                wanted.append((rec['recipe'], rq[:4] + [[how]]))
            continue
        if rec.get('op') == 'reuse' and rec.get('compare'):
            rq = rec['request']
            for entry in rq[4]:
                wanted.append((rec['recipe'], ['parse', 0, rq[2], rq[3], _fresh_entry(entry)]))
            continue
        if rec.get('compare') and not is_recursion(rec['result']):
            wanted.append((rec['recipe'], _fresh_request(rec['request'])))
            if rec['op'] == 'parse_nested':
                op = program['ops'][i]
                wanted.append((rec['recipe'], ['parse', 0, op[2] if op[3] == '@same' else op[3], op[4], ['general']]))
    _prefetch(env, wanted, stats)
    for i, rec in enumerate(trace):
        if rec.get('skipped') or rec['op'] in ('mkctx', 'noise', 'km_set'):
            continue
        op = program['ops'][i]
        if rec.get('ctx_changed') and violation is None:
            violation = {'invariant': 'context-untouched', 'op_index': i, 'op': op,
                         'observed': 'context(s) %r changed their public snapshot' % rec['ctx_changed'],
                         'expected': 'parsing / deriving never modifies a context database'}
            break
        if rec.get('stateful'):
            stateful_positions.append(i)
        if not rec.get('compare'):
            continue
        if rec['op'] == 'parse_tmp':
            rq = rec['request']
            for k, how in enumerate(rq[4]):
                a, b = _references(env, rec['recipe'], rq[:4] + [[how]], stats)
                stats.inc('compared-parses')
                stats.inc('probe:temporary-context-parse-compared')
                if a != b:
                    violation = {'invariant': 'hash-seed-independence', 'op_index': i, 'op': op,
                                 'observed': _diff(a, b), 'expected': 'equal results under both hash seeds'}
                    break
                if k < len(rec['result']) and [rec['result'][k]] != a and not is_recursion(rec['result'][k]):
                    violation = {'invariant': 'result-purity', 'op_index': i, 'op': op,
                                 'observed': _diff([rec['result'][k]], a),
                                 'expected': 'parse with temporary context %d of this operation equals the same '
                                             'derivation and parse in a fresh interpreter' % k}
                    break
            if violation:
                break
            continue
        if rec['op'] == 'reuse':
            rq = rec['request']
            for k, entry in enumerate(rq[4]):
                a, b = _references(env, rec['recipe'], ['parse', 0, rq[2], rq[3], _fresh_entry(entry)], stats)
                stats.inc('compared-parses')
                stats.inc('probe:reused-walker-call-compared')
                if a != b:
                    violation = {'invariant': 'hash-seed-independence', 'op_index': i, 'op': op,
                                 'observed': _diff(a, b), 'expected': 'equal results under both hash seeds'}
                    break
                if k < len(rec['result']) and rec['result'][k] != a and not is_recursion(rec['result'][k]):
                    violation = {'invariant': 'result-purity', 'op_index': i, 'op': op,
                                 'observed': _diff(rec['result'][k], a),
                                 'expected': 'call %d on the reused walker equals the same single call on a new walker '
                                             'in a fresh interpreter' % k}
                    break
            if violation:
                break
            continue
        if is_recursion(rec['result']):
            stats.inc('not-compared-recursion')
            continue
        a, b = _references(env, rec['recipe'], _fresh_request(rec['request']), stats)
        stats.inc('compared-parses')
        if a != b:
            violation = {'invariant': 'hash-seed-independence', 'op_index': i, 'op': op,
                         'observed': _diff(a, b), 'expected': 'equal results under both hash seeds'}
            break
        if rec['result'] != a:
            violation = {'invariant': 'result-purity', 'op_index': i, 'op': op,
                         'observed': _diff(rec['result'], a),
                         'expected': 'same dump as the same parse in a fresh interpreter'}
            break
        if rec['op'] == 'parse_nested' and isinstance(rec['result'], dict):
            # each re-entrant inner parse must also equal a plain fresh parse of the inner document
            inner_req = ['parse', 0, op[2] if op[3] == '@same' else op[3], op[4], ['general']]
            ia, _ib = _references(env, rec['recipe'], inner_req, stats)
            for n in rec['result'].get('nested', []):
                stats.inc('compared-parses')
                stats.inc('probe:reentrant-inner-parse-compared')
                if n != ia and not is_recursion(n):
                    violation = {'invariant': 'result-purity', 'op_index': i, 'op': op,
                                 'observed': _diff(n, ia),
                                 'expected': 're-entrant parse equals the same parse in a fresh interpreter'}
                    break
            if violation:
                break
    if violation is None and out.get('altered'):
        a = out['altered']
        oi = max(0, min(a['op_index'], len(program['ops']) - 1))
        violation = {'invariant': 'earlier-result-unaltered', 'op_index': oi, 'op': program['ops'][oi],
                     'observed': _diff(a['after'], a['before']),
                     'expected': 'the tree returned for %r is not changed by later operations' % (a['doc'][:60],)}
    # non-trivial: a stateful shared parser kind used by >= 2 operations separated by another operation
    nontrivial = any(b - a >= 2 for a, b in zip(stateful_positions, stateful_positions[1:]))
    if len(stateful_positions) >= 2:
        stats.inc('probe:second-use-of-stateful-shared-parser')
    slim = []
    for rec in trace:
        r = {k: v for k, v in rec.items() if k not in ('result', 'recipe', 'request')}
        if 'result' in rec:
            r['result_digest'] = core.short_digest(rec['result'])
        slim.append(r)
    return {'violation': violation, 'trace': slim, 'stats': stats,
            'sets': {'states': out['sigs']}, 'nontrivial': nontrivial}


def _diff(x, y):
    sx, sy = json.dumps(x, sort_keys=True), json.dumps(y, sort_keys=True)
    i = 0
    while i < min(len(sx), len(sy)) and sx[i] == sy[i]:
        i += 1
    lo = max(0, i - 120)
    return {'first_difference_at': i, 'observed': sx[lo:i + 200], 'reference': sy[lo:i + 200]}


# --------------------------------------------------------------------------

def shrink_candidates(program):
    ops = program['ops']
    for i, op in enumerate(ops):
        def repl(new):
            return dict(program, ops=ops[:i] + [new] + ops[i + 1:])
        if op[0] in ('parse', 'abort', 'parse_nested', 'parse_tmp', 'reuse') and isinstance(op[2], str) and len(op[2]) > 1:
            doc = op[2]
            n = len(doc)
            # halves, then single characters (bounded)
            cands = [doc[:n // 2], doc[n // 2:]]
            step = max(1, n // 24)
            for k in range(0, n, step):
                cands.append(doc[:k] + doc[k + step:])
            for c in cands:
                if c != doc:
                    yield repl(op[:2] + [c] + op[3:])
        if op[0] == 'parse_tmp' and len(op[4]) > 1:
            for k in range(len(op[4])):
                yield repl(op[:4] + [op[4][:k] + op[4][k + 1:]])
        if op[0] == 'reuse':
            if len(op[4]) > 1:
                for k in range(len(op[4])):
                    yield repl(op[:4] + [op[4][:k] + op[4][k + 1:]] + op[5:])
            if op[5]:
                yield repl(op[:5] + [False] + op[6:])
            if len(op) > 6 and op[6]:
                yield repl(op[:6] + [False])
        if op[0] == 'parse_nested' and len(op[3]) > 1:
            yield repl(op[:3] + [op[3][:len(op[3]) // 2]] + op[4:])
            yield repl(op[:3] + ['a'] + op[4:])
        if op[0] == 'parse' and op[3]:
            yield repl(op[:3] + [False] + op[4:])
        if op[0] == 'abort' and op[3] == 'interrupt' and op[4] > 1:
            yield repl(op[:4] + [op[4] // 2])
        if op[0] == 'mkctx' and op[1] != ['K1']:
            yield repl(['mkctx', ['K1']])
        if len(op) > 1 and isinstance(op[1], int) and op[1] >= MAX_CTX:
            for j in range(MAX_CTX):
                yield repl([op[0], j] + op[2:])


def finding_key(program, violation):
    return '%s|%s' % (violation['invariant'], ','.join(sorted(set(o[0] for o in program['ops']))))


RULE = ("programs are seeded histories (8-20 operations, up to 60 in the thorough tier) over 1-5 long-lived "
        "contexts (default walker database, a custom database declaring every standard argument type, the same "
        "with explicit shared parser instances, databases derived by filtered_context/extended_with, and the "
        "implicit default): parses through parse_content(LatexGeneralNodesParser), the legacy get_latex_nodes, "
        "get_standard_argument_parser(spec, **kw) at a position, re-entrant parses from a finalize_node callback, "
        "other library activity, and aborted parses (strict error, callback raising, RecursionError, interrupt at "
        "the k-th line event); six runs of every block of 40 parse one set of three documents with one shared "
        "context in the six possible orders; documents come from a per-program pool so the same document returns at different "
        "points of the history; a program is non-trivial when a stateful shared parser kind (verbatim, delimited "
        "verbatim, comma list, tack-on, explicit shared instances) is used by at least two operations separated "
        "by another operation; distinct = distinct program digest; 'states' = distinct shared-state signatures "
        "(keys of the process-wide standard-argument parser cache plus scalar attributes of every cached inner "
        "parser) observed between operations")
COMPONENTS = {
    'real': ['pylatexenc.latexwalker.LatexWalker, all parsers, node classes, macrospec spec classes and '
             'LatexContextDb, process-wide caches (_std_arg_parser_instances), default spec objects',
             'pylatexenc.latex2text / latexencode (noise operations)'],
    'stub': ['token reader subclass that only counts ticks (deterministic step budget)',
             'finalize_node callbacks that raise or re-enter the parser; sys.settrace interrupt injector',
             'reference = pristine fork of the worker and a companion interpreter under another PYTHONHASHSEED'],
}
TIERS = {
    'quick': {'runs': 3200, 'wall_cap': 400},
    'thorough': {'runs': 60000, 'wall_cap': 3600},
}
EXPECTED_PROBES = ['second-use-of-stateful-shared-parser', 'RecursionError-raised',
                   'interrupt-armed-but-parse-ended-first', 'reentrant-inner-parse-compared', 'tolerant-parse',
                   'reused-walker-call-compared', 'pooled-parser-object-used', 'token-reader-reused',
                   'parsing-state-object-reused', 'temporary-context-parse-compared', 'collector-schedule-off',
                   'collector-schedule-eager']

STATES_MEASURE = ('distinct shared-state signatures observed between operations: sorted keys of the process-wide standard-argument parser cache plus the scalar attributes of every cached inner parser (coverage only, never an oracle)')

# wall-clock guard per forked child (a program normally takes milliseconds to a second); only ever
# turns a hang into 'timeout', which is confirmed twice before it is reported
CHILD_WALL_S = 60

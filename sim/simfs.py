# -*- coding: utf-8 -*-
"""Simulated file system for C15 (DESIGN.md 3.3).

* SimFS: inode table (directories, regular files, symbolic links) with POSIX
  path resolution and errno semantics; every simulated system call is counted
  (simulated time) and is a possible fault point.
* Mount: while active, os.stat / os.lstat / os.readlink / os.getcwd /
  os.listdir / os.scandir / os.access / builtins.open / io.open are routed to
  the SimFS for every path that is not under one of the interpreter's own
  directories.  The standard library's path functions (posixpath.realpath,
  genericpath.exists/isfile, pathlib) are pure Python over exactly these calls,
  so they run for real on top of the simulated layout.
* Resolver: an independent (recursive, errno-free) resolver used as oracle; it
  shares no code with SimFS._walk.
"""
from __future__ import print_function

import builtins
import errno
import io
import os
import stat as statmod
import sys

MAXSYMLINKS = 40
NAME_MAX = 255
PATH_MAX = 4096


class SimUnsupported(Exception):
    """The code under test used a system call the simulation does not model
    (harness error, never a violation)."""


class Inode(object):
    __slots__ = ('kind', 'mode', 'entries', 'parent', 'data', 'target', 'ino', 'marker', 'mtime')

    def __init__(self, kind, mode, ino):
        self.kind = kind            # 'd', 'f', 'l'
        self.mode = mode
        self.entries = {} if kind == 'd' else None
        self.parent = None
        self.data = b''
        self.target = None
        self.ino = ino
        self.marker = None
        self.mtime = 0              # simulated seconds; set by SimFS._new / on modification


def _oserr(code, path):
    return OSError(code, os.strerror(code), path)


class SimFS(object):
    def __init__(self):
        self._next_ino = 2
        self.clock = 1000000000
        self.root = self._new('d', 0o755)
        self.root.parent = self.root
        self.cwd = self.root
        self.cwd_path = '/'
        self.calls = 0                 # simulated time: number of simulated system calls
        self.calls_by_kind = {}
        self.fault_plan = None         # (k, errno_index) -> k-th call from arming fails
        self.fault_fired = None
        self._armed_at = 0
        # simulated wall clock for time stamps: the layout is old (built "long ago"); every later
        # modification advances it, so that a changed file never keeps its time stamps
        self.clock = 1000000000
        self.fd_nodes = {}             # real descriptor (anonymous in-memory file) -> inode it was opened on

    # ---------------------------------------------------------------- building
    def _new(self, kind, mode):
        ino = Inode(kind, mode, self._next_ino)
        self._next_ino += 1
        ino.mtime = self.clock
        return ino

    def touch_clock(self):
        self.clock += 100
        return self.clock

    def _parent_for_create(self, path):
        comps = [c for c in path.split('/') if c]
        cur = self.root
        for c in comps[:-1]:
            nxt = cur.entries.get(c)
            if nxt is None:
                nxt = self._new('d', 0o755)
                nxt.parent = cur
                cur.entries[c] = nxt
            if nxt.kind != 'd':
                raise ValueError("layout: %s is not a directory in %s" % (c, path))
            cur = nxt
        return cur, comps[-1]

    def mkdir(self, path, mode=0o755):
        par, name = self._parent_for_create(path)
        if name in par.entries:
            node = par.entries[name]
            if node.kind != 'd':
                raise ValueError("layout: %s exists and is not a directory" % path)
            node.mode = mode
            return node
        node = self._new('d', mode)
        node.parent = par
        par.entries[name] = node
        return node

    def write_file(self, path, data, mode=0o644, marker=None):
        par, name = self._parent_for_create(path)
        if name in par.entries and par.entries[name].kind != 'f':
            raise ValueError("layout: %s exists and is not a file" % path)
        node = par.entries.get(name) or self._new('f', mode)
        node.parent = par
        node.mode = mode
        node.data = data if isinstance(data, bytes) else data.encode('utf-8')
        node.marker = marker
        node.mtime = self.clock
        if name not in par.entries:
            par.mtime = self.clock
        par.entries[name] = node
        return node

    def symlink(self, path, target):
        par, name = self._parent_for_create(path)
        if name in par.entries:
            raise ValueError("layout: %s exists" % path)
        node = self._new('l', 0o777)
        node.parent = par
        node.target = target
        par.entries[name] = node
        par.mtime = self.clock
        return node

    def remove(self, path):
        par, name = self._parent_for_create(path)
        node = par.entries.get(name)
        if node is None:
            return False
        if node.kind == 'd' and node.entries:
            return False
        del par.entries[name]
        par.mtime = self.clock
        return True

    def rename(self, src, dst):
        spar, sname = self._parent_for_create(src)
        node = spar.entries.get(sname)
        if node is None:
            return False
        dpar, dname = self._parent_for_create(dst)
        if dname in dpar.entries:
            return False
        # never move a directory into itself
        p = dpar
        while True:
            if p is node:
                return False
            if p.parent is p:
                break
            p = p.parent
        del spar.entries[sname]
        dpar.entries[dname] = node
        node.parent = dpar
        spar.mtime = dpar.mtime = self.clock
        return True

    def set_cwd(self, path):
        node = self._walk(path, True)
        if node.kind != 'd':
            raise ValueError("cwd %s is not a directory" % path)
        self.cwd = node
        self.cwd_path = self.canonical_path(node)

    def canonical_path(self, node):
        parts = []
        while node.parent is not node:
            par = node.parent
            name = None
            for k, v in par.entries.items():
                if v is node:
                    name = k
                    break
            if name is None:
                return None        # detached
            parts.append(name)
            node = par
        return '/' + '/'.join(reversed(parts))

    def all_nodes(self):
        out = []

        def rec(node, path):
            out.append((path or '/', node))
            if node.kind == 'd':
                for name in sorted(node.entries):
                    rec(node.entries[name], path + '/' + name)
        rec(self.root, '')
        return out

    # ---------------------------------------------------------------- faults, time
    def arm_fault(self, k, errno_index):
        self.fault_plan = (k, errno_index)
        self.fault_fired = None
        self._armed_at = self.calls

    def disarm(self):
        self.fault_plan = None

    _FAULTS = {
        'stat': [errno.EIO, errno.ENOMEM], 'lstat': [errno.EIO, errno.ENOMEM],
        'readlink': [errno.EIO, errno.ENOMEM],
        'open': [errno.EMFILE, errno.ENFILE, errno.EINTR, errno.EACCES],
        'read': [errno.EIO], 'listdir': [errno.EIO], 'access': [errno.EIO],
    }

    def _syscall(self, kind, path=None):
        self.calls += 1
        self.calls_by_kind[kind] = self.calls_by_kind.get(kind, 0) + 1
        if self.fault_plan is not None and self.fault_fired is None:
            k, ei = self.fault_plan
            if self.calls - self._armed_at == k:
                codes = self._FAULTS.get(kind, [errno.EIO])
                code = codes[ei % len(codes)]
                self.fault_fired = [kind, errno.errorcode[code], k]
                raise _oserr(code, path)

    # ---------------------------------------------------------------- resolution
    def _walk(self, path, follow_last):
        if path == '':
            raise _oserr(errno.ENOENT, path)
        if len(path) >= PATH_MAX:
            raise _oserr(errno.ENAMETOOLONG, path)
        budget = [MAXSYMLINKS]
        cur = self.root if path.startswith('/') else self.cwd
        return self._walk_from(cur, path, follow_last, budget, path)

    def _walk_from(self, cur, path, follow_last, budget, orig):
        comps = path.split('/')
        trailing = len(comps) > 1 and comps[-1] == '' and any(comps)
        comps = [c for c in comps if c]
        for i, c in enumerate(comps):
            last = (i == len(comps) - 1)
            if cur.kind != 'd':
                raise _oserr(errno.ENOTDIR, orig)
            if not cur.mode & 0o100:
                raise _oserr(errno.EACCES, orig)
            if len(c) > NAME_MAX:
                raise _oserr(errno.ENAMETOOLONG, orig)
            if c == '.':
                continue
            if c == '..':
                cur = cur.parent
                continue
            nxt = cur.entries.get(c)
            if nxt is None:
                raise _oserr(errno.ENOENT, orig)
            if nxt.kind == 'l' and (not last or follow_last or trailing):
                budget[0] -= 1
                if budget[0] < 0:
                    raise _oserr(errno.ELOOP, orig)
                tgt = nxt.target
                if tgt == '':
                    raise _oserr(errno.ENOENT, orig)
                if len(tgt) >= PATH_MAX:
                    raise _oserr(errno.ENAMETOOLONG, orig)
                start = self.root if tgt.startswith('/') else cur
                nxt = self._walk_from(start, tgt, True, budget, orig)
            cur = nxt
        if trailing and cur.kind != 'd':
            raise _oserr(errno.ENOTDIR, orig)
        return cur

    # ---------------------------------------------------------------- system calls
    def _stat_result(self, node):
        fmt = {'d': statmod.S_IFDIR, 'f': statmod.S_IFREG, 'l': statmod.S_IFLNK}[node.kind]
        size = len(node.data) if node.kind == 'f' else (len(node.target) if node.kind == 'l' else 4096)
        t = node.mtime
        ns = t * 1000000000
        return os.stat_result((fmt | node.mode, node.ino, 0x51, 1, 1000, 1000, size, t, t, t),
                              {'st_atime': float(t), 'st_mtime': float(t), 'st_ctime': float(t),
                               'st_atime_ns': ns, 'st_mtime_ns': ns, 'st_ctime_ns': ns,
                               'st_blksize': 4096, 'st_blocks': (size + 511) // 512, 'st_rdev': 0})

    def fstat(self, fd):
        self._syscall('fstat', '<fd %d>' % fd)
        return self._stat_result(self.fd_nodes[fd])

    def _memfd(self, node):
        fd = os.memfd_create('simfs')
        data = node.data
        off = 0
        while off < len(data):
            off += os.write(fd, data[off:])
        os.lseek(fd, 0, os.SEEK_SET)
        self.fd_nodes[fd] = node
        return fd

    def stat(self, path):
        self._syscall('stat', path)
        return self._stat_result(self._walk(path, True))

    def lstat(self, path):
        self._syscall('lstat', path)
        return self._stat_result(self._walk(path, False))

    def readlink(self, path):
        self._syscall('readlink', path)
        node = self._walk(path, False)
        if node.kind != 'l':
            raise _oserr(errno.EINVAL, path)
        return node.target

    def listdir(self, path):
        self._syscall('listdir', path)
        node = self._walk(path, True)
        if node.kind != 'd':
            raise _oserr(errno.ENOTDIR, path)
        if not node.mode & 0o400:
            raise _oserr(errno.EACCES, path)
        return sorted(node.entries)

    def access(self, path, mode):
        self._syscall('access', path)
        try:
            node = self._walk(path, True)
        except OSError:
            return False
        if mode & os.R_OK and not node.mode & 0o400:
            return False
        if mode & os.W_OK and not node.mode & 0o200:
            return False
        if mode & os.X_OK and not node.mode & 0o100:
            return False
        return True

    def os_open(self, path, flags):
        """Low-level open for reading: returns a real descriptor of an anonymous in-memory file
        holding the simulated content (so that os.fdopen / os.read / os.fstat work unchanged)."""
        acc = flags & (os.O_RDONLY | os.O_WRONLY | os.O_RDWR)
        if acc != os.O_RDONLY or flags & (os.O_CREAT | os.O_TRUNC | os.O_APPEND):
            raise SimUnsupported("os.open(%r, %#o) for writing on the simulated file system" % (path, flags))
        self._syscall('open', path)
        nofollow = bool(flags & getattr(os, 'O_NOFOLLOW', 0))
        node = self._walk(path, not nofollow)
        if node.kind == 'l':
            raise _oserr(errno.ELOOP, path)          # O_NOFOLLOW on a symbolic link
        if flags & getattr(os, 'O_DIRECTORY', 0) and node.kind != 'd':
            raise _oserr(errno.ENOTDIR, path)
        if node.kind == 'd':
            raise SimUnsupported("os.open of a directory on the simulated file system")
        if not node.mode & 0o400:
            raise _oserr(errno.EACCES, path)
        self._syscall('read', path)
        return self._memfd(node)

    def open(self, path, mode='r', buffering=-1, encoding=None, errors=None, newline=None,
             closefd=True, opener=None):
        if opener is not None or any(ch in mode for ch in 'wax+'):
            raise SimUnsupported("open(%r, %r) on the simulated file system" % (path, mode))
        self._syscall('open', path)
        node = self._walk(path, True)
        if node.kind == 'd':
            raise _oserr(errno.EISDIR, path)
        if not node.mode & 0o400:
            raise _oserr(errno.EACCES, path)
        raw = _SimRaw(self, node.data, path, node)
        if 'b' in mode:
            return io.BufferedReader(raw)
        return io.TextIOWrapper(io.BufferedReader(raw), encoding=encoding or 'utf-8',
                                errors=errors, newline=newline)


class _SimRaw(io.RawIOBase):
    def __init__(self, fs, data, path, node=None):
        io.RawIOBase.__init__(self)
        self._fs, self._data, self._off, self.name = fs, data, 0, path
        self._node, self._fd = node, None

    def readable(self):
        return True

    def fileno(self):
        # a descriptor exists as soon as somebody asks for it (os.fstat(f.fileno()) and friends)
        if self._fd is None:
            if self._node is None:
                raise io.UnsupportedOperation('fileno')
            self._fd = self._fs._memfd(self._node)
        return self._fd

    def close(self):
        if self._fd is not None:
            self._fs.fd_nodes.pop(self._fd, None)
            try:
                os.close(self._fd)
            except OSError:
                pass
            self._fd = None
        io.RawIOBase.close(self)

    def readinto(self, b):
        self._fs._syscall('read', self.name)
        n = min(len(b), len(self._data) - self._off)
        b[:n] = self._data[self._off:self._off + n]
        self._off += n
        return n


# --------------------------------------------------------------------------
# routing os / open to the simulation

class Mount(object):
    PATCHED_OS = ('stat', 'lstat', 'readlink', 'getcwd', 'listdir', 'scandir', 'access', 'open',
                  'getcwdb', 'fstat', 'close')

    def __init__(self, fs, real_prefixes):
        self.fs = fs
        self.real_prefixes = tuple(p.rstrip('/') for p in real_prefixes if p)
        self.saved = {}
        self.unsupported = []

    def is_sim(self, path):
        if isinstance(path, int):
            return False
        try:
            p = os.fspath(path)
        except TypeError:
            return False
        if isinstance(p, bytes):
            p = os.fsdecode(p)
        if not p.startswith('/'):
            return True
        for pre in self.real_prefixes:
            if p == pre or p.startswith(pre + '/'):
                return False
        return True

    @staticmethod
    def _s(path):
        p = os.fspath(path)
        if isinstance(p, bytes):
            p = os.fsdecode(p)
        if '\0' in p:
            raise ValueError("embedded null byte")
        return p

    def __enter__(self):
        fs, real = self.fs, self.saved
        for name in self.PATCHED_OS:
            real[name] = getattr(os, name)
        real['builtins.open'] = builtins.open
        real['io.open'] = io.open
        m = self

        def unsupported(what):
            m.unsupported.append(what)
            raise SimUnsupported(what)

        def sim_fstat(fd):
            if fd in fs.fd_nodes:
                return fs.fstat(fd)
            return real['fstat'](fd)

        def sim_close(fd):
            fs.fd_nodes.pop(fd, None)
            return real['close'](fd)

        def sim_stat(path, *, dir_fd=None, follow_symlinks=True):
            if isinstance(path, int) and path in fs.fd_nodes:
                return fs.fstat(path)
            if not m.is_sim(path):
                return real['stat'](path, dir_fd=dir_fd, follow_symlinks=follow_symlinks)
            if dir_fd is not None:
                unsupported('stat(dir_fd=...)')
            return fs.stat(m._s(path)) if follow_symlinks else fs.lstat(m._s(path))

        def sim_lstat(path, *, dir_fd=None):
            if not m.is_sim(path):
                return real['lstat'](path, dir_fd=dir_fd)
            if dir_fd is not None:
                unsupported('lstat(dir_fd=...)')
            return fs.lstat(m._s(path))

        def sim_readlink(path, *, dir_fd=None):
            if not m.is_sim(path):
                return real['readlink'](path, dir_fd=dir_fd)
            if dir_fd is not None:
                unsupported('readlink(dir_fd=...)')
            return fs.readlink(m._s(path))

        def sim_getcwd():
            return fs.cwd_path

        def sim_getcwdb():
            return os.fsencode(fs.cwd_path)

        def sim_listdir(path='.'):
            if not m.is_sim(path):
                return real['listdir'](path)
            return fs.listdir(m._s(path))

        def sim_scandir(path='.'):
            if not m.is_sim(path):
                return real['scandir'](path)
            unsupported('scandir')

        def sim_access(path, mode, *, dir_fd=None, effective_ids=False, follow_symlinks=True):
            if not m.is_sim(path):
                return real['access'](path, mode, dir_fd=dir_fd, effective_ids=effective_ids,
                                      follow_symlinks=follow_symlinks)
            return fs.access(m._s(path), mode)

        def sim_os_open(path, flags, mode=0o777, *, dir_fd=None):
            if not m.is_sim(path):
                return real['open'](path, flags, mode, dir_fd=dir_fd)
            if dir_fd is not None:
                unsupported('os.open(dir_fd=...)')
            return fs.os_open(m._s(path), flags)

        def sim_open(file, mode='r', buffering=-1, encoding=None, errors=None, newline=None,
                     closefd=True, opener=None):
            if not m.is_sim(file):
                return real['builtins.open'](file, mode, buffering, encoding, errors, newline,
                                             closefd, opener)
            return fs.open(m._s(file), mode, buffering, encoding, errors, newline, closefd, opener)

        os.stat, os.lstat, os.readlink = sim_stat, sim_lstat, sim_readlink
        os.getcwd, os.getcwdb, os.listdir, os.scandir = sim_getcwd, sim_getcwdb, sim_listdir, sim_scandir
        os.access, os.open = sim_access, sim_os_open
        os.fstat, os.close = sim_fstat, sim_close
        builtins.open = sim_open
        io.open = sim_open
        return self

    def __exit__(self, *exc):
        for name in self.PATCHED_OS:
            setattr(os, name, self.saved[name])
        builtins.open = self.saved['builtins.open']
        io.open = self.saved['io.open']
        return False


def default_real_prefixes(extra=()):
    out = {sys.prefix, sys.base_prefix, sys.exec_prefix, '/proc', '/dev', '/usr/lib', '/usr/local/lib'}
    out.update(os.path.dirname(p) for p in (os.__file__,) if p)
    out.update(extra)
    return sorted(p for p in out if p and p != '/')


# --------------------------------------------------------------------------
# independent oracle resolver (no errno, recursive, no code shared with _walk)

class Resolver(object):
    """resolve(path) -> inode or None, following POSIX rules, for the oracle.

    Written separately from SimFS._walk on purpose: consumes the path
    recursively, one component at a time, as (directory, rest-of-path)."""

    def __init__(self, fs):
        self.fs = fs
        self.touched_root = False
        self.went_above = False      # '..' applied at the top-level directory or at the root

    def resolve(self, path, follow_last=True, start=None):
        self.links = 0
        if path == '' or len(path) >= PATH_MAX:
            return None
        if path.startswith('/'):
            here = self.fs.root
        else:
            here = start if start is not None else self.fs.cwd
        must_be_dir = path.endswith('/') and path.strip('/') != ''
        names = [x for x in path.split('/') if x != '']
        node = self._step(here, names, follow_last or must_be_dir)
        if node is not None and must_be_dir and node.kind != 'd':
            return None
        return node

    def _step(self, here, names, follow_last):
        if here is self.fs.root:
            self.touched_root = True
        if not names:
            return here
        if here.kind != 'd' or not (here.mode & 0o100):
            return None
        head, tail = names[0], names[1:]
        if len(head) > NAME_MAX:
            return None
        if head == '.':
            return self._step(here, tail, follow_last)
        if head == '..':
            if here.parent is self.fs.root:
                self.went_above = True
            return self._step(here.parent, tail, follow_last)
        child = here.entries.get(head)
        if child is None:
            return None
        if child.kind == 'l' and (tail or follow_last):
            self.links += 1
            if self.links > MAXSYMLINKS:
                return None
            t = child.target
            if t == '' or len(t) >= PATH_MAX:
                return None
            base = self.fs.root if t.startswith('/') else here
            tnames = [x for x in t.split('/') if x != '']
            target = self._step(base, tnames, True)
            if target is None:
                return None
            if t.endswith('/') and t.strip('/') != '' and target.kind != 'd':
                return None
            return self._step(target, tail, follow_last)
        return self._step(child, tail, follow_last)

    def inside(self, node, dirnode):
        """Component-wise containment on canonical (link-free) locations."""
        n = node
        while True:
            if n is dirnode:
                return True
            if n.parent is n or n.parent is None:
                return False
            n = n.parent

# -*- coding: utf-8 -*-
"""C15 -- \\input never reads outside the configured directory in strict mode
(DESIGN.md 3.3).

System: the real read_latex_file / LatexNodes2Text.read_input_file /
latex_to_text and the real posixpath / genericpath, on top of a simulated file
system that replaces the kernel behind the os / open seam."""
from __future__ import print_function

import re

import core
import simfs

PROP = 'C15'
W = '/sim/w'
MARK_RX = re.compile(r'MK\d{3}Q')

ASSUMPTIONS = [
    "the simulated file system stands in for the kernel; its fidelity is bounded by the differential self-test "
    "against real system calls (run as an unprivileged user so that permission bits are enforced) that precedes "
    "every check, and the standard library's path functions run for real on top of it",
    "'inside' is decided on canonical (link-free) locations of inodes, component-wise, by an independent resolver",
    "static layouts per read: no adversary mutates the file system between the system calls of one read "
    "(the layout does change between reads)",
    "transient system-call failures (errno at the k-th simulated call) are explored and counted but are not "
    "gating: the property quantifies over names and layouts, not over failing system calls",
    "availability ('names that resolve inside are read') is gating only in the fault-free batch and only where "
    "the expectation is unambiguous (POSIX resolution of the name, or of name.tex / name.latex when the name "
    "does not exist at all, yields a readable regular UTF-8 file inside the directory)",
]

FEATURES = ['sibling_prefix', 'outside_tree', 'link_in_out_file', 'link_in_out_dir', 'link_in_in',
            'link_out_in_dir', 'chain', 'dangling', 'ext_only_link', 'dir_beside_tex', 'latex_ext',
            'nested_include', 'link_to_base', 'deep_base', 'abs_links', 'dir_tex_link', 'base_dot_tex',
            'case_sibling', 'dot_links', 'out_link_to_nest', 'dotdot_names', 'odd_names', 'name_and_ext',
            'nest_chain', 'nest_cycle', 'pub_share']
PERSISTENT_FEATURES = ['loop', 'unreadable_file', 'unsearchable_dir', 'non_utf8', 'long_name', 'long_chain']


# --------------------------------------------------------------------------
# layout generation

class LayoutBuilder(object):
    def __init__(self, rng):
        self.rng = rng
        self.entries = []
        self.nmark = 0
        self.files = []          # canonical paths of files

    def marker(self):
        self.nmark += 1
        return 'MK%03dQ' % self.nmark

    def d(self, path, mode=0o755):
        self.entries.append(['d', path, mode])

    def f(self, path, extra='', mode=0o644, raw_hex=None):
        mk = self.marker()
        self.entries.append(['f', path, mk, extra, mode, raw_hex])
        self.files.append(path)
        return mk

    def l(self, path, target):
        self.entries.append(['l', path, target])


def relpath_to(src_dir, dst):
    a = [c for c in src_dir.split('/') if c]
    b = [c for c in dst.split('/') if c]
    i = 0
    while i < len(a) and i < len(b) and a[i] == b[i]:
        i += 1
    return '/'.join(['..'] * (len(a) - i) + b[i:]) or '.'


def gen_layout(rng, batch):
    # (include cycles are rare: each read of one costs a thousand nested conversions)
    feats = set(f for f in FEATURES if rng.random() < (0.04 if f == 'nest_cycle' else 0.5))
    if batch in ('persistent', 'transient'):
        feats.update(f for f in PERSISTENT_FEATURES if rng.random() < (0.45 if batch == 'persistent' else 0.15))
        if batch == 'persistent' and not feats & set(PERSISTENT_FEATURES):
            feats.add(rng.choice(PERSISTENT_FEATURES))
    b = LayoutBuilder(rng)
    basename = rng.choice(['base', 'base', 'doc', 'in', 'Base', 'Proj', 'paper:v2', 'my docs', 'a,b', 'x;y',
                           u'caf\u00e9', u'cafe\u0301', u'\u00c5ngstr\u00f6m', u'\ufb01le'])
    parent = W + ('/p' if 'deep_base' in feats else '')
    base = parent + '/' + basename
    b.d(W)
    b.d(base)
    b.d(base + '/sub')
    inside_names = ['a.tex', 'b.tex', 'plain', 'notes.txt', 'secret.tex']
    for n in rng.sample(inside_names, rng.randint(2, 4)):
        b.f(base + '/' + n)
    b.f(base + '/sub/' + rng.choice(['a.tex', 'deep.tex', 'secret.tex']))
    if rng.random() < 0.4:
        b.d(base + '/sub/deep')
        b.f(base + '/sub/deep/d.tex')
    outs = []
    out = parent + '/out'
    b.d(out)
    outs.append(b.f(out + '/secret.tex') and out + '/secret.tex')
    if rng.random() < 0.6:
        outs.append(b.f(out + '/plain') and out + '/plain')
    if 'outside_tree' in feats:
        b.d('/sim/other')
        outs.append(b.f('/sim/other/secret.tex') and '/sim/other/secret.tex')
        b.d('/sim/other/sub')
        outs.append(b.f('/sim/other/sub/a.tex') and '/sim/other/sub/a.tex')
    sibs = []
    if 'sibling_prefix' in feats:
        for suffix in rng.sample(['2', '.d', '_old', 'x'], rng.randint(1, 3)):
            sd = base + suffix
            b.d(sd)
            sibs.append(sd)
            outs.append(b.f(sd + '/secret.tex') and sd + '/secret.tex')
            if rng.random() < 0.5:
                outs.append(b.f(sd + '/a.tex') and sd + '/a.tex')
        if len(basename) > 2 and rng.random() < 0.5:
            sd = parent + '/' + basename[:-1]
            b.d(sd)
            outs.append(b.f(sd + '/secret.tex') and sd + '/secret.tex')

    if any(ch in basename for ch in ':,; '):
        # what a careless split of the directory name at a separator character would look at
        import re as _re
        parts = [x for x in _re.split('[:,; ]', basename) if x]
        pre = parent + '/' + parts[0]
        b.d(pre)
        outs.append(b.f(pre + '/secret.tex') and pre + '/secret.tex')
        outs.append(b.f(pre + '/a.tex') and pre + '/a.tex')
        b.d(parent + '/' + parts[-1])
        outs.append(b.f(parent + '/' + parts[-1] + '/secret.tex') and parent + '/' + parts[-1] + '/secret.tex')
    if any(ord(ch) > 127 for ch in basename):
        # siblings whose names are the same text in another unicode normalisation form (or its
        # compatibility form): different directories for the kernel
        import unicodedata
        forms = set(unicodedata.normalize(f, basename) for f in ('NFC', 'NFD', 'NFKC', 'NFKD')) - {basename}
        for v in sorted(forms)[:2]:
            sd = parent + '/' + v
            b.d(sd)
            sibs.append(sd)
            outs.append(b.f(sd + '/secret.tex') and sd + '/secret.tex')
            outs.append(b.f(sd + '/a.tex') and sd + '/a.tex')
            b.l(base + '/nf%d' % len(sibs), sd)
    if 'case_sibling' in feats:
        # siblings whose names differ from the directory's only in letter case
        variants = [v for v in (basename.lower(), basename.upper(), basename.capitalize(), basename.swapcase())
                    if v != basename]
        for v in sorted(set(variants))[:rng.randint(1, 2)]:
            sd = parent + '/' + v
            b.d(sd)
            sibs.append(sd)
            outs.append(b.f(sd + '/secret.tex') and sd + '/secret.tex')
            outs.append(b.f(sd + '/a.tex') and sd + '/a.tex')

    def tgt(src_dir, dst):
        if 'abs_links' in feats and rng.random() < 0.5:
            return dst
        return relpath_to(src_dir, dst)

    if 'dot_links' in feats:
        # directory links that do not lead anywhere else by themselves
        b.l(base + '/here', '.')
        b.l(base + '/up', '..')
        b.l(base + '/sub/top', '..')
        if rng.random() < 0.5:
            outs.append(b.f(parent + '/secret.tex') and parent + '/secret.tex')

    if 'link_in_out_file' in feats:
        b.l(base + '/lnkf', tgt(base, rng.choice(outs)))
        if rng.random() < 0.5:
            b.l(base + '/sub/lnkf.tex', tgt(base + '/sub', rng.choice(outs)))
    if 'link_in_out_dir' in feats:
        b.l(base + '/lnkd', tgt(base, out))
        if sibs and rng.random() < 0.5:
            b.l(base + '/lnks', tgt(base, sibs[0]))
    if 'link_in_in' in feats:
        b.l(base + '/li', 'sub')
        b.l(base + '/lif.tex', rng.choice(['sub/../a.tex', 'b.tex', './sub/a.tex', 'plain']))
    if 'link_out_in_dir' in feats:
        b.l(out + '/back', tgt(out, base))
        b.l(out + '/backsub', tgt(out, base + '/sub'))
    if 'chain' in feats:
        b.l(base + '/c1', 'c2')
        b.l(base + '/c2', 'sub/c3')
        b.l(base + '/sub/c3', tgt(base + '/sub', rng.choice(outs + [base + '/a.tex'])))
    if 'dangling' in feats:
        b.l(base + '/dang', 'nowhere')
        b.l(base + '/dang2.tex', tgt(base, out + '/missing.tex'))
    if 'ext_only_link' in feats:
        b.l(base + '/lnk.tex', tgt(base, rng.choice(outs)))
        if rng.random() < 0.5:
            b.l(base + '/lnk2.latex', tgt(base, rng.choice(outs)))
        if rng.random() < 0.5:
            b.l(base + '/sub/lnk3.tex', tgt(base + '/sub', rng.choice(outs)))
    if 'dir_beside_tex' in feats:
        b.d(base + '/x')
        b.f(base + '/x.tex')
        b.f(base + '/x/y.tex')
    if 'name_and_ext' in feats:
        # a name that exists as it is *and* with extensions: the name itself must win
        b.f(base + '/n1')
        b.f(base + '/n1.tex')
        b.f(base + '/n1.latex')
        b.f(base + '/n2')
        b.f(base + '/n2.latex')
        b.f(base + '/n3')
        b.l(base + '/n3.latex', tgt(base, rng.choice(outs)))
        b.f(base + '/n4.tex')
        b.l(base + '/n4.tex.latex', tgt(base, rng.choice(outs)))
        b.f(base + '/sub/n5.tex')
        b.f(base + '/sub/n5.tex.tex')
    if 'dotdot_names' in feats:
        # inside names that merely *start* with two dots
        b.f(base + '/..appendix.tex')
        b.d(base + '/..drafts')
        b.f(base + '/..drafts/d.tex')
        b.f(base + '/...tex')
        b.l(base + '/alias.tex', '..appendix.tex')
        if rng.random() < 0.5:
            outs.append(b.f(parent + '/..appendix.tex') and parent + '/..appendix.tex')
    if 'odd_names' in feats:
        # legal but unusual names: spaces, non-ASCII, hidden, several extensions, extension-only,
        # a directory that looks like a file and a file that looks like an extension
        for n in rng.sample(['sp ace.tex', 'uni-\u00e9\u00df.tex', '.hidden.tex', 'a.b.tex', 'x.tex.tex', '.tex',
                             'tex', 'latex', 'q.latex.tex', 'TeX.TEX', 'tab\there.tex', '-dash.tex', '~tilde.tex'],
                            rng.randint(3, 6)):
            b.f(base + '/' + n)
        b.d(base + '/d.tex')
        b.f(base + '/d.tex/inner.tex')
        b.l(base + '/sp link.tex', tgt(base, rng.choice(outs)))
        b.l(base + '/uni-\u00fc.latex', tgt(base, rng.choice(outs)))
        outs.append(b.f(out + '/sp ace.tex') and out + '/sp ace.tex')
    if 'dir_tex_link' in feats:
        # a directory beside a link of the same name plus extension, pointing outside
        b.d(base + '/chap')
        b.f(base + '/chap/in.tex')
        b.l(base + '/chap' + rng.choice(['.tex', '.latex']), tgt(base, rng.choice(outs)))
        if rng.random() < 0.5:
            b.l(base + '/sub.tex', tgt(base, rng.choice(outs)))
    if 'base_dot_tex' in feats:
        # files named like the input directory itself plus extension, next to it
        for ext in rng.sample(['.tex', '.latex'], rng.randint(1, 2)):
            outs.append(b.f(base + ext) and base + ext)
    if 'latex_ext' in feats:
        b.f(base + '/c.latex')
        b.f(base + '/both.tex')
        b.f(base + '/both.latex')
        outs.append(b.f(out + '/o.latex') and out + '/o.latex')
    if 'nested_include' in feats:
        inner = rng.choice(['../out/secret', 'lnk', 'sub/a', 'lnkf', '../' + basename + '2/secret',
                            out + '/secret.tex', 'b', 'lnkd/secret', 'onlyout', 'secret', 'here/../secret',
                            '../' + basename.swapcase() + '/secret'])
        b.f(base + '/nest.tex', extra=' \\input{%s} tail' % inner)
        if 'out_link_to_nest' in feats:
            # the including file is also reachable under a name that lies outside, next to
            # files that exist only there
            b.l(out + '/backf.tex', tgt(out, base + '/nest.tex'))
            outs.append(b.f(out + '/onlyout.tex') and out + '/onlyout.tex')
            if 'link_in_out_dir' not in feats:
                b.l(base + '/lnkd', tgt(base, out))
            b.d(base + '/sub/inc')
            b.f(base + '/sub/inc/n2.tex', extra=' \\input{%s} tail' % rng.choice(['onlyout', 'secret', 'a']))
            b.l(out + '/back2.tex', tgt(out, base + '/sub/inc/n2.tex'))
    if 'nest_chain' in feats:
        # inputs nested three or four deep, across directories; only the last one may try to leave
        last = rng.choice(['../out/secret', '../../out/secret', 'lnkd/secret', 'sub/a', 'secret', 'lnk', 'onlyout',
                           out + '/secret.tex', '../' + basename + '2/secret', 'a', 'lnkf', 'up/secret'])
        hops = rng.choice([['nc1.tex', 'sub/nc2.tex', 'nc3.tex'], ['nc1.tex', 'sub/nc2.tex', 'sub/deep/nc3.tex', 'nc4.tex'],
                           ['sub/nc1.tex', 'nc2.tex', 'sub/nc3.tex']])
        if any('deep' in h for h in hops):
            b.d(base + '/sub/deep')
        for k, h in enumerate(hops):
            nxt = hops[k + 1][:-4] if k + 1 < len(hops) else last
            how = rng.choice(['\\input{%s}', '\\input{%s}', '\\include{%s}', '\\input %s '])
            b.f(base + '/' + h, extra=' ' + how % nxt + ' t%d' % k)
    if 'nest_cycle' in feats:
        b.f(base + '/cyc1.tex', extra=' \\input{cyc2} u')
        b.f(base + '/cyc2.tex', extra=' \\input{%s} v' % rng.choice(['cyc1', 'cyc1.tex', 'sub/../cyc1', 'cyc2']))
    if 'pub_share' in feats:
        # a directory link leading out, where a link leads back in to a file that inputs a name
        # existing only out there
        share = out + '/share'
        b.d(share)
        b.l(base + '/pub', tgt(base, share))
        inner = rng.choice(['notes', 'notes.tex', './notes', 'intro2'])
        b.f(base + '/intro.tex', extra=' \\input{%s} w' % inner)
        b.l(share + '/intro.tex', tgt(share, base + '/intro.tex'))
        outs.append(b.f(share + '/notes.tex') and share + '/notes.tex')
        b.f(base + '/intro2.tex', extra=' \\input{pub/notes} x')
        if rng.random() < 0.5:
            b.l(share + '/intro2.tex', tgt(share, base + '/intro2.tex'))
    if 'link_to_base' in feats:
        b.l(parent + '/lbase', basename)
        b.l('/sim/lb', tgt('/sim', base))
    # ---- persistent faults = features of the layout
    if 'loop' in feats:
        b.l(base + '/loop1', 'loop2')
        b.l(base + '/loop2', 'loop1')
        b.l(base + '/selfloop', 'selfloop/x')
    if 'unreadable_file' in feats:
        b.f(base + '/noread.tex', mode=0o000)
        outs.append(b.f(out + '/noread.tex', mode=0o000) and out + '/noread.tex')
    if 'unsearchable_dir' in feats:
        b.d(base + '/locked', 0o600)
        b.f(base + '/locked/in.tex')
        b.l(base + '/locked/esc', tgt(base + '/locked', out))
        b.d(out + '/locked', 0o600)
        outs.append(b.f(out + '/locked/secret.tex') and out + '/locked/secret.tex')
    if 'non_utf8' in feats:
        b.f(base + '/bin.tex', raw_hex='ff fe 80')
        outs.append(b.f(out + '/bin.tex', raw_hex='c3 28') and out + '/bin.tex')
    if 'long_name' in feats:
        b.f(base + '/' + 'n' * 251 + '.tex')
    if 'long_chain' in feats:
        n = rng.choice([39, 40, 41, 45])
        for i in range(n):
            b.l(base + '/ch%d' % i, 'ch%d' % (i + 1))
        b.l(base + '/ch%d' % n, tgt(base, rng.choice(outs + [base + '/a.tex'])))
    dirspecs = [base, base + '/', base + '/sub/..', base + '/../' + basename, base + '/.']
    if 'link_to_base' in feats:
        dirspecs += [parent + '/lbase', '/sim/lb', parent + '/lbase/']
    cwd = rng.choice([parent, parent, base + '/sub', '/sim'])
    dirspecs += [relpath_to(cwd, base), './' + relpath_to(cwd, base)]
    return {'entries': b.entries, 'cwd': cwd, 'base': base, 'dirspecs': dirspecs,
            'features': sorted(feats)}


def build_fs(layout):
    fs = simfs.SimFS()
    markers = {}
    for e in layout['entries']:
        if e[0] == 'd':
            fs.mkdir(e[1], e[2])
        elif e[0] == 'f':
            _, path, mk, extra, mode, raw_hex = e
            data = (mk + extra + '\n').encode('utf-8')
            if raw_hex:
                data = mk.encode('ascii') + b' ' + bytes.fromhex(raw_hex.replace(' ', '')) + b'\n'
            markers[mk] = fs.write_file(path, data, mode, marker=mk)
        elif e[0] == 'l':
            fs.symlink(e[1], e[2])
    fs.mkdir(layout['base'])
    try:
        fs.set_cwd(layout['cwd'])
    except (OSError, ValueError):
        fs.mkdir(layout['cwd'])
        fs.set_cwd(layout['cwd'])
    return fs, markers


# --------------------------------------------------------------------------
# names

def gen_name(rng, fs, res, basenode, layout):
    parts = []
    cur = basenode
    style = rng.random()
    if style < 0.12:
        # aimed at a specific file anywhere: lexical route from the base directory
        files = [p for p, n in fs.all_nodes() if n.kind == 'f']
        dst = rng.choice(files)
        name = relpath_to(layout['base'], dst)
    elif style < 0.17:
        files = [p for p, n in fs.all_nodes() if n.kind in 'fl']
        name = rng.choice(files)                         # absolute
    else:
        for _ in range(rng.randint(1, 5)):
            choices = sorted(cur.entries) + ['..', '..', '.']
            if not (cur.mode & 0o100):
                choices = ['..']
            c = rng.choice(choices)
            parts.append(c)
            if c == '..':
                cur = cur.parent
                continue
            if c == '.':
                continue
            node = cur.entries[c]
            if node.kind == 'l':
                node = res.resolve(c, True, start=cur)
            if node is None or node.kind != 'd':
                break
            cur = node
        name = '/'.join(parts)
    if rng.random() < 0.06:
        bn = layout['base'].rsplit('/', 1)[1]
        name = rng.choice(['', '.', './', 'sub/..', 'sub', 'sub/', 'chap', 'chap/', './chap', 'chap/../chap', 'x',
                           'sub/../.', '..', '../' + bn, 'here/../secret', 'here/../secret.tex', 'up/secret',
                           'sub/top/../secret', 'lnkd/backf', 'lnkd/back2', '../out/backf', 'lnkd/../secret',
                           'li/../../secret', '../' + bn.swapcase() + '/secret', '../' + bn.lower() + '/secret',
                           '../' + bn.upper() + '/a.tex', 'lnkd/../' + bn.upper() + '/secret',
                           '..appendix', '..appendix.tex', '..drafts/d', 'alias', '..', '...tex', '../..appendix',
                           'n1', 'n2', 'n3', 'n4', 'n4.tex', 'sub/n5', 'sub/n5.tex', 'n1.tex',
                           'nc1', 'sub/nc1', 'sub/nc2', 'cyc1', 'cyc2', 'pub/intro', 'pub/intro.tex', 'intro', 'intro2',
                           'pub/intro2', 'pub/../intro', 'pub/notes', '~/secret.tex', '~/secret', '$HOME/secret.tex',
                           '$TEXINPUTS/secret', 'secret'])
        return name
    # mutations
    x = rng.random()
    if x < 0.45:
        for ext in ('.tex', '.latex'):
            if name.endswith(ext):
                name = name[:-len(ext)]
                break
    elif x < 0.50:
        name = name + rng.choice(['.tex', '.latex', 'x', '/', '/.', '/..'])
    if rng.random() < 0.08 and not name.startswith('/'):
        # a component that cannot be looked up (missing, too long, a link loop, a dangling link,
        # an unsearchable directory), stepped out of again with '..'
        x0 = rng.choice(['nosuch', 'nosuch/deeper/..', 'n' * 300, 'loop1', 'selfloop', 'dang', 'locked',
                         'a.tex', 'sub/nosuch'])
        comps = name.split('/')
        k = rng.randrange(len(comps))
        name = '/'.join(comps[:k] + [x0, '..'] + comps[k:])
    y = rng.random()
    if y < 0.05:
        name = './' + name
    elif y < 0.09:
        name = name.replace('/', '//', 1)
    elif y < 0.12 and not name.startswith('/'):
        name = layout['base'] + '/' + name
    elif y < 0.19 and any(ord(ch) > 127 for ch in layout['base']):
        import unicodedata
        bn = layout['base'].rsplit('/', 1)[1]
        v = unicodedata.normalize(rng.choice(['NFC', 'NFD', 'NFKC', 'NFKD']), bn)
        name = rng.choice(['../' + v + '/secret', '../' + v + '/a.tex', layout['base'].rsplit('/', 1)[0] + '/' + v + '/secret.tex',
                           'nf1/secret', 'nf2/a'])
    elif y < 0.16:
        bn = layout['base'].rsplit('/', 1)[1]
        name = '../' + bn + rng.choice(['2', '.d', '_old', 'x', '', '/../' + bn + '2']) + '/' + \
            rng.choice(['secret', 'secret.tex', 'a', 'a.tex'])
    elif y < 0.18:
        name = 'n' * rng.choice([251, 255, 256, 300]) + rng.choice(['', '.tex'])
    return name


def generate(rng, tier, run):
    sel = run % 10
    batch = 'plain' if sel < 5 else ('persistent' if sel < 8 else 'transient')
    layout = gen_layout(rng, batch)
    fs, _ = build_fs(layout)
    res = simfs.Resolver(fs)
    basenode = res.resolve(layout['base'])
    n_reads = rng.randint(8, 20) if tier == 'quick' else rng.randint(10, 40)
    long_run = run % 100 in (93, 97)
    name_pool = []
    if long_run:
        # volume: hundreds of reads through one converter, a pool of names coming back again and again
        # between names that are asked only once (whatever is cached per name, directory or instance
        # gets filled, evicted and asked again)
        n_reads = rng.choice([120, 200, 320]) if tier == 'quick' else rng.choice([200, 500, 1000])
        name_pool = [gen_name(rng, fs, res, basenode if basenode is not None else fs.root, layout)
                     for _ in range(rng.randint(8, 30))]
    ops = []
    if rng.random() < 0.15:
        ops.append(['read', rng.choice(['a', 'a.tex', layout['base'] + '/a.tex', '../out/secret']), 'rif'])
    ops.append(['set_dir', rng.choice(layout['dirspecs']), rng.random() < 0.9,
                rng.choice(['new', 'new', 'new', 'assign-dir'])])
    nmut = 0
    if rng.random() < 0.08:
        # the process environment a TeX user may well have
        par = layout['base'].rsplit('/', 1)[0]
        ops.insert(0, ['setenv', rng.choice(['TEXINPUTS', 'TEXINPUTS', 'TEXINPUTS', 'HOME', 'TEXMFHOME', 'PWD', 'TEXINPUTS_latex']),
                       rng.choice(['.:../out:', 'lnkd:', par + '/out:', '.:./sub//:../out:', '..//', par + '/out',
                                   'sub:' + par + '/out/share', ':' + layout['base'] + '2', '/sim/other:.'])])
    dirs_for_cwd = sorted(set([layout['cwd'], W, layout['base'], layout['base'] + '/sub', '/sim']))
    for _ in range(n_reads):
        z = rng.random()
        if z < 0.07:
            ops.append(['set_dir', rng.choice(layout['dirspecs']), rng.random() < 0.8,
                        rng.choice(['new', 'reuse', 'reuse', 'assign', 'new-path', 'assign-dir'])])
        elif z < 0.09:
            d = rng.choice(dirs_for_cwd)
            ops.append(['chdir', d])
            try:
                fs.set_cwd(d)
            except (OSError, ValueError):
                pass
        elif z < 0.105 and 'link_to_base' in layout['features']:
            # the link through which the directory may have been configured now points elsewhere
            parent = layout['base'].rsplit('/', 1)[0]
            op = ['mutate', 'symlink', rng.choice([parent + '/lbase', '/sim/lb']),
                  rng.choice([parent + '/out', layout['base'] + '/sub', layout['base'], W])]
            _apply_mutation(fs, op, {})
            ops.append(op)
        elif z < 0.15:
            # the file system changes between reads
            kind = rng.choice(['retarget', 'remove', 'create_link', 'create_file', 'rename'])
            nodes = [p for p, n in fs.all_nodes() if n.kind != 'd' and p.startswith(layout['base'])]
            anyfile = [p for p, n in fs.all_nodes() if n.kind == 'f']
            nmut += 1
            if kind == 'retarget' or kind == 'create_link':
                path = layout['base'] + '/' + rng.choice(['m%d' % nmut, 'm%d.tex' % nmut, 'sub/m%d' % nmut])
                dst = rng.choice(anyfile + [layout['base'], W])
                op = ['mutate', 'symlink', path, relpath_to(path.rsplit('/', 1)[0], dst)
                      if rng.random() < 0.7 else dst]
            elif kind == 'remove' and nodes:
                op = ['mutate', 'remove', rng.choice(nodes)]
            elif kind == 'rename' and nodes:
                src = rng.choice(nodes)
                op = ['mutate', 'rename', src, src + rng.choice(['.tex', '.bak', '2'])]
            else:
                op = ['mutate', 'create_file', layout['base'] + '/' + rng.choice(['new%d.tex', 'sub/new%d', 'new%d.latex']) % nmut,
                      'MK9%02dQ' % nmut]
            _apply_mutation(fs, op, {})
            ops.append(op)
        else:
            if batch == 'transient' and rng.random() < 0.7:
                ops.append(['fault', rng.randint(1, 14), rng.randrange(4)])
            if name_pool and rng.random() < 0.6:
                name = rng.choice(name_pool)
            else:
                name = gen_name(rng, fs, res, basenode if basenode is not None else fs.root, layout)
            via = 'rif' if rng.random() < 0.65 else rng.choice(['input', 'include'])
            if any(x in name for x in ('nest', 'back', 'n2', 'nc', 'cyc', 'intro')) and rng.random() < 0.7:
                via = rng.choice(['input', 'include'])
            ops.append(['read', name, via])
    return {'batch': batch + ('-long' if long_run else ''), 'layout': layout, 'ops': ops}


def _apply_mutation(fs, op, markers):
    kind = op[1]
    fs.touch_clock()        # simulated time passes between the reads; what is modified gets new time stamps
    try:
        if kind == 'symlink':
            fs.remove(op[2])
            fs.symlink(op[2], op[3])
        elif kind == 'remove':
            fs.remove(op[2])
        elif kind == 'rename':
            fs.rename(op[2], op[3])
        elif kind == 'create_file':
            markers[op[3]] = fs.write_file(op[2], op[3] + '\n', 0o644, marker=op[3])
    except ValueError:
        pass        # e.g. parent is not a directory any more: mutation is a no-op


# --------------------------------------------------------------------------
# executor

DOC_TEMPLATES = ['@M{@N}', '@M{@N}', '@M {@N}', 'x \\textbf{@M{@N}} y', '@M{@N} and again @M{@N}', '% c\n@M{@N}',
                 '\\begin{itemize}\\item @M{@N}\\end{itemize}', '$a$ @M{@N}\n\n@M{a}', '{\\small @M{@N}}']


class Violation(Exception):
    def __init__(self, invariant, **info):
        Exception.__init__(self, invariant)
        self.invariant = invariant
        self.info = info


def name_class(name, via_link, ext_fallback):
    return [int('..' in name.split('/')), int(name.startswith('/')), int(via_link), int(ext_fallback),
            int(name.endswith('/')), int('//' in name)]


def lexically_leaves(name):
    depth = 0
    if name.startswith('/'):
        return True
    for c in name.split('/'):
        if c == '..':
            depth -= 1
            if depth < 0:
                return True
        elif c not in ('', '.'):
            depth += 1
    return False


def passes_link(fs, dirnode, name):
    """Does the lexical route of the name step on a symbolic link?"""
    cur = dirnode
    for c in name.split('/'):
        if c in ('', '.'):
            continue
        if cur is None or cur.kind != 'd':
            return False
        if c == '..':
            cur = cur.parent
            continue
        nxt = cur.entries.get(c)
        if nxt is None:
            return False
        if nxt.kind == 'l':
            return True
        cur = nxt
    return False


def execute(program):
    from pylatexenc.latex2text import LatexNodes2Text
    layout = program['layout']
    batch = program['batch'].replace('-long', '')
    fs, markers = build_fs(layout)
    res = simfs.Resolver(fs)
    mount = simfs.Mount(fs, simfs.default_real_prefixes([core.repo_path(), core.VERIF_DIR]))
    stats = core.Counters()
    sigs = set()
    trace = []
    violation = None
    nontrivial = False
    received = []

    class RecordingL2T(LatexNodes2Text):
        def read_input_file(self, fn):
            received.append(fn)
            return super(RecordingL2T, self).read_input_file(fn)

    l2t = None
    dirspec, strict = None, True
    env_touched = False
    fault = None
    breaches = []
    try:
        for opi, op in enumerate(program['ops']):
            kind = op[0]
            if kind == 'set_dir':
                dirspec, strict = op[1], op[2]
                mode = op[3] if len(op) > 3 else 'new'
                dirarg = dirspec
                if mode == 'new-path':
                    import pathlib
                    dirarg = pathlib.PurePosixPath(dirspec)       # os.PathLike directory
                    l2t = RecordingL2T()
                elif mode == 'new' or (l2t is None and mode != 'assign-dir'):
                    l2t = RecordingL2T()
                    mode = 'new'
                if mode == 'assign-dir':
                    # a fresh converter; only the directory attribute is assigned, strict_input keeps
                    # its documented default (on)
                    l2t = RecordingL2T()
                    l2t.tex_input_directory = dirspec
                    strict = True
                elif mode == 'assign':
                    # the documented public attributes, assigned directly
                    l2t.tex_input_directory = dirspec
                    l2t.strict_input = strict
                else:
                    try:
                        with mount:
                            if strict and opi % 2:
                                l2t.set_tex_input_directory(dirarg)          # strict_input defaults to True
                            else:
                                l2t.set_tex_input_directory(dirarg, strict_input=strict)
                    except simfs.SimUnsupported as e:
                        raise core.HarnessError("unsupported simulated system call: %s" % e)
                    except Exception as e:
                        raise Violation('availability', op_index=opi, name=None, via='set_tex_input_directory',
                                        dirspec=dirspec, observed='set_tex_input_directory raised ' + repr(e),
                                        expected='the directory is accepted')
                stats.inc('op:set_dir-' + mode)
                trace.append(['set_dir', dirspec, strict, mode])
                continue
            if kind == 'setenv':
                import os as _os
                _os.environ[op[1]] = op[2]           # this process is a throw-away child
                env_touched = True                   # which file a name means may now legitimately differ
                stats.inc('op:setenv-' + op[1])
                trace.append(['setenv', op[1]])
                continue
            if kind == 'chdir':
                try:
                    fs.set_cwd(op[1])
                    stats.inc('op:chdir')
                except (OSError, ValueError):
                    pass
                trace.append(['chdir', op[1]])
                continue
            if kind == 'mutate':
                _apply_mutation(fs, op, markers)
                stats.inc('op:mutate-' + op[1])
                trace.append(['mutate', op[1]])
                continue
            if kind == 'fault':
                fault = (op[1], op[2])
                continue
            if kind != 'read':
                raise core.HarnessError('unknown op %r' % (op,))
            name, via = op[1], op[2]
            if l2t is None or dirspec is None:
                # no input directory configured: nothing may be read, the file system is not touched
                if l2t is None:
                    l2t = RecordingL2T()
                c0 = fs.calls
                try:
                    with mount:
                        t0 = l2t.read_input_file(name) if via == 'rif' else \
                            l2t.latex_to_text('\\%s{%s}' % (via, name))
                except simfs.SimUnsupported as e:
                    raise core.HarnessError("unsupported simulated system call: %s" % e)
                except Exception as e:
                    t0 = e
                stats.inc('op:read-without-directory')
                if (isinstance(t0, Exception) or MARK_RX.findall(t0 or '') or fs.calls != c0) and via == 'rif':
                    raise Violation('no-directory-no-access', op_index=opi, name=name, via=via, dirspec=None,
                                    observed=(repr(t0)[:100] + ', %d simulated system calls' % (fs.calls - c0)),
                                    expected="'' and no file-system access while no input directory is set")
                trace.append(['read', name, via, 'no-directory'])
                continue
            stats.inc('op:read-' + via)
            dirnode = res.resolve(dirspec)
            if dirnode is not None and dirnode.kind != 'd':
                dirnode = None
            # ---- expectation (availability), by POSIX resolution of the name itself
            joined = name if name.startswith('/') else dirspec.rstrip('/') + '/' + name
            expect = None
            ext_fallback = False
            if name != '':
                target = res.resolve(joined)
                # harness self-check: the two resolvers must agree
                try:
                    w = fs._walk(joined, True)
                except OSError:
                    w = None
                if w is not target:
                    raise core.HarnessError("SimFS and oracle resolver disagree on %r" % (joined,))
                if target is not None:
                    expect = target
                elif res.resolve(joined, follow_last=False) is None and not name.endswith('/'):
                    for ext in ('.tex', '.latex'):
                        t2 = res.resolve(joined + ext)
                        if t2 is not None or res.resolve(joined + ext, follow_last=False) is not None:
                            expect = t2
                            ext_fallback = t2 is not None
                            break
            del received[:]
            del mount.unsupported[:]
            exc = None
            text = None
            calls0 = fs.calls
            if fault is not None:
                fs.arm_fault(*fault)
                stats.inc('fault-armed:transient-errno')
            try:
                with mount:
                    if via == 'rif':
                        text = l2t.read_input_file(name)
                    else:
                        # the document side: the macro in different surroundings (chosen by the name)
                        tpl = DOC_TEMPLATES[sum(ord(ch) for ch in name) % len(DOC_TEMPLATES)]
                        text = l2t.latex_to_text(tpl.replace('@M', '\\' + via).replace('@N', name))
            except simfs.SimUnsupported as e:
                raise core.HarnessError("unsupported simulated system call: %s" % e)
            except Exception as e:
                # whatever the code under test raises is an outcome, never a harness error:
                # it is judged by the oracles below (nothing was returned)
                exc = e
                if not isinstance(e, (OSError, UnicodeDecodeError, ValueError, RecursionError)):
                    stats.inc('probe:unexpected-exception-type')
            finally:
                fs.disarm()
            if mount.unsupported:
                raise core.HarnessError("unsupported simulated system call: %s" % mount.unsupported[0])
            fired = fs.fault_fired
            had_fault = fault is not None
            fault = None
            fs.fault_fired = None
            stats.inc('ticks', fs.calls - calls0)
            if fired:
                stats.inc('fault-fired:transient-%s-%s' % (fired[0], fired[1]))
                sigs.add('fault:%s:%s:%d' % (fired[0], fired[1], fired[2]))
            if text is not None and not isinstance(text, str):
                raise Violation('returns-text', op_index=opi, observed=repr(type(text)), expected='str')
            found = MARK_RX.findall(text or '')
            via_link = dirnode is not None and passes_link(fs, dirnode, name)
            leaves = lexically_leaves(name)
            if leaves or via_link or ext_fallback:
                nontrivial = True
                stats.inc('probe:nontrivial-read')
            if leaves:
                stats.inc('probe:name-leaves-lexically')
            if via_link:
                stats.inc('probe:name-steps-on-link')
            if ext_fallback:
                stats.inc('probe:extension-fallback-expected')
            outcome = 'empty'
            # ---- oracle 1: containment
            outside_read = []
            for mk in found:
                node = markers.get(mk)
                if node is None:
                    continue
                if dirnode is not None and not res.inside(node, dirnode):
                    outside_read.append(mk)
            if found:
                outcome = 'read-inside'
            if outside_read:
                outcome = 'read-OUTSIDE'
                stats.inc('probe:outside-content-returned')
                if strict:
                    info = dict(op_index=opi, name=name, via=via, dirspec=dirspec,
                                observed='returned content of %s' %
                                [fs.canonical_path(markers[m]) for m in outside_read],
                                expected='nothing from outside %s' % fs.canonical_path(dirnode))
                    if fired:
                        breaches.append(dict(info, fault=fired))
                        stats.inc('transient-breaches-not-gating')
                    else:
                        raise Violation('containment', **info)
                else:
                    stats.inc('probe:outside-read-with-strict-off')
            if exc is not None:
                outcome = 'exception-' + type(exc).__name__
                stats.inc('probe:exception-' + type(exc).__name__)
            # ---- oracle 2: availability (fault-free batch only, unambiguous expectations only)
            if batch == 'plain' and not had_fault and via == 'rif' and expect is not None \
               and expect.kind == 'f' and dirnode is not None and not env_touched:
                if (not strict) or res.inside(expect, dirnode):
                    stats.inc('availability-expectations')
                    want_text = None
                    try:
                        want_text = expect.data.decode('utf-8')
                    except UnicodeDecodeError:
                        pass
                    if expect.marker in found and want_text is not None and text != want_text:
                        # the right file, but not its content as it is
                        raise Violation('availability', op_index=opi, name=name, via=via, dirspec=dirspec,
                                        strict=strict, observed=repr(text)[:120],
                                        expected='exactly the content of %s: %r' %
                                        (fs.canonical_path(expect), want_text[:80]))
                    if expect.marker not in found:
                        raise Violation('availability', op_index=opi, name=name, via=via, dirspec=dirspec,
                                        strict=strict,
                                        observed=(repr(exc) if exc is not None else repr(text)[:80]),
                                        expected='content of %s' % fs.canonical_path(expect))
                elif strict and expect.kind == 'f':
                    stats.inc('probe:outside-target-refused' if not found else 'probe:outside-target-other')
            if dirnode is None:
                stats.inc('probe:dirspec-unresolvable')
            stats.inc('outcome:' + outcome.split('-')[0])
            stats.inc('checked-operations')
            sigs.add(core.short_digest([layout['features'], name_class(name, via_link, ext_fallback), outcome]))
            trace.append(['read', name, via, outcome, found, fired])
    except Violation as v:
        violation = dict(v.info, invariant=v.invariant, op=program['ops'][v.info['op_index']])
        trace.append(['violation', v.invariant])
    if breaches:
        stats.inc('programs-with-transient-breaches')
    return {'violation': violation, 'trace': trace, 'stats': stats,
            'sets': {'states': sorted(sigs)}, 'nontrivial': nontrivial,
            'breaches': breaches[:3]}


def run_program(program, env):
    return env.pristine(execute, program)


# --------------------------------------------------------------------------

def shrink_candidates(program):
    layout = program['layout']
    ents = layout['entries']
    # drop layout entries (never the first two: working area and base)
    for i in range(len(ents) - 1, 1, -1):
        l2 = dict(layout, entries=ents[:i] + ents[i + 1:])
        yield dict(program, layout=l2)
    ops = program['ops']
    for i, op in enumerate(ops):
        def repl(new):
            return dict(program, ops=ops[:i] + [new] + ops[i + 1:])
        if op[0] == 'read':
            if op[2] != 'rif':
                yield repl(['read', op[1], 'rif'])
            comps = op[1].split('/')
            if len(comps) > 1:
                for k in range(len(comps)):
                    yield repl(['read', '/'.join(comps[:k] + comps[k + 1:]), op[2]])
        if op[0] == 'set_dir' and op[1] != layout['base']:
            yield repl(['set_dir', layout['base'], op[2]])
    if layout['cwd'] != W:
        yield dict(program, layout=dict(layout, cwd=W))


def finding_key(program, violation):
    return '%s|%s' % (violation['invariant'], violation.get('name'))


def preflight(tier):
    import selftest
    n = 20 if tier == 'quick' else 300
    info = selftest.simfs_differential(n, seed=int(__import__('os').environ.get('VERIF_SEED', '0') or 0))
    if info['mismatches']:
        raise core.HarnessError("simulated file system disagrees with the kernel on %d probes, e.g. %r" %
                                (info['mismatches'], info['examples'][:1]))
    return info


RULE = ("programs = one generated directory layout (8-60 nodes: inside files, outside trees, sibling directories "
        "whose names extend or shorten the base name, links in every direction, dangling links, links that exist "
        "only under the extended name, a directory beside x.tex, .latex files; in the persistent-fault batch also "
        "loops, unreadable files, unsearchable directories, non-UTF-8 content, over-long names, 39-45 link chains) "
        "plus 8-20 (thorough: up to 40) operations: set_tex_input_directory, reads through read_input_file / "
        "\\input / \\include with names built by random walks over the layout graph and mutated, mutations of the "
        "layout between reads, and in the transient batch an errno at the k-th simulated system call; a program "
        "is non-trivial when some read's name leaves the base directory lexically, steps on a symbolic link, or "
        "needs the extension fallback; distinct = distinct program digest; 'states' = distinct (layout feature "
        "set, name class, outcome) triples plus distinct fired fault sites")
COMPONENTS = {
    'real': ['pylatexenc.latex2text._inputlatexfile.read_latex_file', 'LatexNodes2Text.read_input_file / '
             'set_tex_input_directory / latex_to_text (\\input, \\include, nested includes)',
             'posixpath.realpath/join/abspath, genericpath.exists/isfile (standard library, pure Python)'],
    'stub': ['kernel: simulated file system behind os.stat/lstat/readlink/getcwd/listdir/access and open '
             '(differentially tested against real system calls before every check)',
             'LatexNodes2Text subclass that only records the names read_input_file receives'],
}
TIERS = {
    'quick': {'runs': 32000, 'wall_cap': 300},
    'thorough': {'runs': 700000, 'wall_cap': 3600},
}
EXPECTED_PROBES = ['name-leaves-lexically', 'name-steps-on-link', 'extension-fallback-expected',
                   'outside-target-refused']


def coverage_extra(batch):
    st = batch.stats
    return {'transient_fault_batch': {
        'gating': False,
        'breaches_reported_not_gating': st.get('transient-breaches-not-gating', 0),
        'programs_with_breaches': st.get('programs-with-transient-breaches', 0)}}

STATES_MEASURE = ('distinct (layout feature set, name class, outcome) triples plus distinct fired fault sites (call kind, errno, call index)')

# wall-clock guard per forked child (a program normally takes milliseconds to a second); only ever
# turns a hang into 'timeout', which is confirmed twice before it is reported
CHILD_WALL_S = 20

# -*- coding: utf-8 -*-
"""Context recipes and document grammar for C09 (DESIGN.md 3.1).

A recipe is a JSON value; build_context(recipe) is a deterministic builder, so
the reference process can build an *equal* context from the recipe while the
history process keeps using one long-lived instance."""
from __future__ import print_function


class SimCallbackError(Exception):
    """Raised by a user-supplied callback (finalize_node) on purpose."""


# the document a re-entrant callback parses (set by the executor before the outer parse)
NESTED = {'inner': None, 'results': [], 'parse_fn': None}

STD_ARG_TYPES = ['*', '[', '{', 'm', 'o', 's', 't+', 'r()', 'd<>', 'v', 'v{}',
                 'AnyDelimited', 'AnyDelimitedOptional']

# macro name -> arguments spec list, for recipe K1
K1_MACROS = [
    ('ms', ['*']), ('mo', ['[']), ('mb', ['{']), ('mm', ['m']), ('mq', ['o']), ('mS', ['s']),
    ('mt', ['t+']), ('mr', ['r()']), ('md', ['d<>']), ('mv', ['v']), ('mw', ['v{}']),
    ('mA', ['AnyDelimited']), ('mB', ['AnyDelimitedOptional']),
    ('mx', ['*', '[', '{']), ('my', ['o', 'm', 'm']), ('mz', ['s', 'v']), ('mu', ['d<>', 'r()', 't+']),
    ('mvv', ['v', 'v']), ('mAv', ['AnyDelimitedOptional', 'v{}']),
]


def _boom(node):
    raise SimCallbackError("finalize_node callback failed on purpose")


def _fin(node):
    # a callback with a visible effect that fails for some inputs only
    a = node.nodeargd.argnlist[0] if node.nodeargd and node.nodeargd.argnlist else None
    txt = a.latex_verbatim() if a is not None else ''
    if 'bad' in txt or txt == '{}':
        raise SimCallbackError("finalize_node callback refuses this argument")
    node.macro_post_space = '<fin:%d>' % len(txt)
    return node


def _nest(node):
    # re-entrant use of the library: parse another document with the same
    # context before the outer parse continues
    if NESTED['inner'] is not None and NESTED['parse_fn'] is not None and not NESTED.get('busy'):
        ctx = node.parsing_state.latex_context
        NESTED['busy'] = True
        try:
            if NESTED['inner'] == '@same':
                # ... with the very walker that is in the middle of the outer parse (its own text again)
                NESTED['results'].append(NESTED['same_fn'](node.latex_walker))
            else:
                NESTED['results'].append(NESTED['parse_fn'](ctx, NESTED['inner']))
        finally:
            NESTED['busy'] = False
    return node


_legacy_cls = {}


def legacy_state_parser():
    """A pylatexenc-2 style arguments parser that reports a new parsing state for
    some invocations only (argument text 'def'), like a \\newcommand-ish macro."""
    if 'cls' not in _legacy_cls:
        from pylatexenc.macrospec import MacroStandardArgsParser

        class SimLegacyStateParser(MacroStandardArgsParser):
            def __init__(self):
                super(SimLegacyStateParser, self).__init__('{')

            def parse_args(self, w, pos, parsing_state=None):
                argd, apos, alen = super(SimLegacyStateParser, self).parse_args(
                    w=w, pos=pos, parsing_state=parsing_state)
                if parsing_state is None:
                    parsing_state = w.make_parsing_state()
                if w.s[apos:apos + alen].strip() == '{def}':
                    return (argd, apos, alen,
                            {'new_parsing_state': parsing_state.sub_context(enable_comments=False)})
                return (argd, apos, alen)
        _legacy_cls['cls'] = SimLegacyStateParser
    return _legacy_cls['cls']()


def macro_dict_variant(v):
    """pylatexenc-1 style macro_dict: same names and size, different signatures."""
    from pylatexenc.latexwalker import MacrosDef
    sigs = [(False, 1), (False, 2), (True, 1)][v % 3]
    sigs2 = [(True, 2), (False, 1), (False, 3)][v % 3]
    return {'kmac': MacrosDef('kmac', sigs[0], sigs[1]),
            'kmad': MacrosDef('kmad', sigs2[0], sigs2[1]),
            'textbf': MacrosDef('textbf', False, 1)}


def _snip_body_parser(token, nodeargd, arg_parsing_state_delta):
    from pylatexenc.latexnodes import parsers as P
    from pylatexenc.macrospec import LatexEnvironmentBodyContentsParser
    if nodeargd is not None and nodeargd.argnlist and nodeargd.argnlist[0] is not None:
        return P.LatexVerbatimEnvironmentContentsParser(environment_name='snip')
    return LatexEnvironmentBodyContentsParser(environmentname='snip')


def build_k1(shared_instances=False):
    from pylatexenc import macrospec
    from pylatexenc.latexnodes import (
        LatexArgumentSpec, ParsingStateDeltaEnterMathMode,
    )
    from pylatexenc.latexnodes import parsers as P
    db = macrospec.LatexContextDb()
    macros = [macrospec.MacroSpec(name, list(spec)) for name, spec in K1_MACROS]
    macros.append(macrospec.MacroSpec('boom', ['{'], finalize_node=_boom))
    macros.append(macrospec.MacroSpec('nest', ['{'], finalize_node=_nest))
    macros.append(macrospec.MacroSpec('fin', ['{'], finalize_node=_fin))
    macros.append(macrospec.MacroSpec('fim', ['[', '{'], finalize_node=_fin))
    macros.append(macrospec.MacroSpec(
        'defn', ['{'],
        make_after_parsing_state_delta=lambda parsed_node, latex_walker:
            macrospec.ParsingStateDeltaExtendLatexContextDb(
                extend_latex_context=dict(macros=[macrospec.MacroSpec('defd', ['[', '{'])])
            )
    ))
    macros.append(macrospec.MacroSpec(
        'defs', ['{'],
        # a definition made while parsing that adds specials and an environment, too
        make_after_parsing_state_delta=lambda parsed_node, latex_walker:
            macrospec.ParsingStateDeltaExtendLatexContextDb(
                extend_latex_context=dict(
                    macros=[macrospec.MacroSpec('defd', ['{'])],
                    environments=[macrospec.EnvironmentSpec('denv', ['['])],
                    specials=[macrospec.SpecialsSpec('~~'), macrospec.SpecialsSpec('&&', ['{']),
                              macrospec.SpecialsSpec('!w')]))
    ))
    environments = [
        macrospec.EnvironmentSpec('en', ['[', '{']),
        macrospec.EnvironmentSpec('em', [], body_parsing_state_delta=ParsingStateDeltaEnterMathMode()),
        macrospec.EnvironmentSpec(
            'ev', [],
            make_body_parser=lambda token, nodeargd, arg_parsing_state_delta:
                P.LatexVerbatimEnvironmentContentsParser(environment_name='ev')),
        macrospec.EnvironmentSpec('evv', ['v']),
        # environments whose body sees extra definitions (delta objects stored on the spec)
        macrospec.EnvironmentSpec('xa', [], body_parsing_state_delta=macrospec.ParsingStateDeltaExtendLatexContextDb(
            extend_latex_context=dict(macros=[macrospec.MacroSpec('xam', ['[', '{'])]))),
        macrospec.EnvironmentSpec('xb', [], body_parsing_state_delta=macrospec.ParsingStateDeltaExtendLatexContextDb(
            extend_latex_context=dict(macros=[macrospec.MacroSpec('xbm', ['{', '{']),
                                              macrospec.MacroSpec('xam', ['{'])]))),
        macrospec.EnvironmentSpec('xs', ['['], body_parsing_state_delta=macrospec.ParsingStateDeltaExtendLatexContextDb(
            extend_latex_context=dict(macros=[macrospec.MacroSpec('step', ['[', '{'])]))),
        # the body parser depends on the parsed arguments of this occurrence
        macrospec.EnvironmentSpec('snip', ['['], make_body_parser=_snip_body_parser),
    ]
    specials = [macrospec.SpecialsSpec('~'), macrospec.SpecialsSpec('``'), macrospec.SpecialsSpec("''"),
                macrospec.SpecialsSpec('&'), macrospec.SpecialsSpec('\n\n'),
                macrospec.SpecialsSpec('!v', ['v'])]
    db.add_context_category('k1', macros=macros, environments=environments, specials=specials)
    # legacy (pylatexenc 2) argument parsers
    db.add_context_category('k1-legacy', macros=[
        macrospec.MacroSpec('lg', args_parser=macrospec.MacroStandardArgsParser('*[{')),
        macrospec.MacroSpec('lv', args_parser=macrospec.VerbatimArgsParser(verbatim_arg_type='verb-macro')),
        macrospec.MacroSpec('ls', args_parser='[{'),
        macrospec.MacroSpec('lgs', args_parser=legacy_state_parser()),
        macrospec.MacroSpec('lgm', args_parser=macrospec.MacroStandardArgsParser(
            '{{', args_math_mode=[True, False])),
        macrospec.std_macro('sm', True, 2),
        macrospec.std_macro('smm', '*[{' if not shared_instances else '*{'),
        macrospec.MacroSpec('me', ['e{^_}']),
    ], environments=[
        # the same helper call with another flag in the other recipe: helper results must not be shared
        macrospec.std_environment('se', '[{', is_math_mode=(not shared_instances)),
        macrospec.EnvironmentSpec('lverb', args_parser=macrospec.VerbatimArgsParser(
            verbatim_arg_type='verbatim-environment', verbatim_environment_name='lverb')),
    ])
    if shared_instances:
        sv = P.LatexDelimitedVerbatimParser(delimiters=('{', '}'))
        sva = P.LatexDelimitedVerbatimParser()
        sc = P.LatexCharsGroupParser()
        scl = P.LatexCharsCommaSeparatedListParser()
        st = P.LatexTackOnInformationFieldMacrosParser(['label', 'tag'], allow_multiple=['tag'])

        def A(parser, name):
            return LatexArgumentSpec(parser=parser, argname=name)
        db.add_context_category('k2-shared', macros=[
            macrospec.MacroSpec('sva', [A(sv, 'v')]), macrospec.MacroSpec('svb', ['[', A(sv, 'v')]),
            macrospec.MacroSpec('svc', [A(sva, 'v')]), macrospec.MacroSpec('svd', [A(sva, 'a'), A(sva, 'b')]),
            macrospec.MacroSpec('sca', [A(sc, 'c')]), macrospec.MacroSpec('scb', ['*', A(sc, 'c')]),
            macrospec.MacroSpec('scl', [A(scl, 'l')]), macrospec.MacroSpec('scm', [A(scl, 'l'), A(scl, 'm')]),
            macrospec.MacroSpec('sta', ['{', A(st, 't')]), macrospec.MacroSpec('stb', [A(st, 't')]),
        ], environments=[
            macrospec.EnvironmentSpec('esv', [A(sv, 'v')]),
        ])
    db.set_unknown_macro_spec(macrospec.MacroSpec('', []))
    db.set_unknown_environment_spec(macrospec.EnvironmentSpec('', []))
    return db


def build_context(recipe):
    """recipe: ['K0'] | ['K1'] | ['K2'] | ['filtered', parent, kwargs] | ['extended', parent, macros]"""
    from pylatexenc import macrospec
    kind = recipe[0]
    if kind == 'K0':
        from pylatexenc.latexwalker import get_default_latex_context_db
        return get_default_latex_context_db()
    if kind == 'KM':
        return macro_dict_variant(recipe[1])
    if kind == 'KG':
        # the process-global pylatexenc-1 style dictionary of default macros
        from pylatexenc.latexwalker import default_macro_dict
        return default_macro_dict
    if kind in ('KD', 'KT'):
        return None
    if kind == 'K3':
        from pylatexenc.latex2text import get_default_latex_context_db as l2t_db
        return l2t_db()
    if kind == 'K1':
        return build_k1(False)
    if kind == 'K2':
        return build_k1(True)
    return derive_context(build_context(recipe[1]), recipe)


def derive_context(parent, recipe):
    from pylatexenc import macrospec
    kind = recipe[0]
    if kind == 'filtered':
        return parent.filtered_context(**recipe[2])
    if kind == 'extended':
        parent.freeze()
        return parent.extended_with(
            macros=[macrospec.MacroSpec(n, list(spec)) for n, spec in recipe[2]])
    if kind == 'extended_s':
        # ... with specials of its own
        parent.freeze()
        return parent.extended_with(specials=[macrospec.SpecialsSpec(c) for c in recipe[2]])
    raise ValueError("unknown recipe %r" % (recipe,))


def base_kind(recipe):
    while recipe[0] in ('filtered', 'extended', 'extended_s'):
        recipe = recipe[1]
    return recipe[0]


def gen_derivation(rng, parent_recipe):
    if rng.random() < 0.5:
        bk = base_kind(parent_recipe)
        if bk == 'K3':
            kw = rng.choice([{'keep_which': ['macros', 'environments']}, {}, {'exclude_categories': ['latex-base']}])
        elif bk == 'K0':
            kw = rng.choice([{'exclude_categories': ['natbib']}, {'keep_categories': ['latex-base', 'verbatim']},
                             {'keep_which': ['macros', 'environments']}])
        else:
            kw = rng.choice([{'exclude_categories': ['k1-legacy']}, {'keep_categories': ['k1', 'k2-shared']},
                             {'keep_which': ['macros', 'environments']}, {}])
        return ['filtered', parent_recipe, kw]
    extra = rng.choice([[['xa', ['v']]], [['xa', ['[', '{']], ['xb', ['v{}']]], [['mv', ['{']]],
                        [['xc', ['AnyDelimited', 'v']]]])
    return ['extended', parent_recipe, extra]


# --------------------------------------------------------------------------
# documents

WORDS = ['a', 'bc', 'x y', 'Hello', 'w.', '1+2', 'q,r', 'z']


class DocGen(object):
    def __init__(self, rng, recipe):
        self.rng = rng
        self.kind = base_kind(recipe)
        self.legacy1 = self.kind in ('KM', 'KT')
        if self.kind in ('K3', 'KD', 'KM', 'KT', 'KG'):
            self.kind = 'K0'
        self.extended = []
        r = recipe
        while r[0] in ('filtered', 'extended'):
            if r[0] == 'extended':
                self.extended += [(n, list(s)) for n, s in r[2]]
            r = r[1]

    def text(self):
        return self.rng.choice(WORDS)

    def content(self, depth, math=False):
        n = self.rng.randint(1, 3 if depth > 0 else 4)
        return ''.join(self.piece(depth, math) for _ in range(n))

    def verb_payload(self, open_c, close_c, depth=2):
        # verbatim payload with properly nested delimiters (when they differ)
        rng = self.rng
        s = rng.choice(['a', 'x y', '\\z', '%c', '$', 'b~'])
        if depth > 0 and open_c != close_c and rng.random() < 0.6:
            s += open_c + self.verb_payload(open_c, close_c, depth - 1) + close_c + rng.choice(['', 'c'])
            if rng.random() < 0.3:
                s += open_c + close_c
        return s

    def arg(self, spec, depth):
        rng = self.rng
        d = max(depth - 1, 0)
        sp = rng.choice(['', '', '', ' '])
        if spec in ('{', 'm', '[', 'o') and rng.random() < 0.07:
            sp = rng.choice([' % c\n', '%d\n  ', '  % e\n% f\n'])    # comments / space before an argument
        if spec in ('{', 'm'):
            if rng.random() < 0.25:
                return sp + rng.choice(['a', 'x', '\\ms', '7'])       # single-token argument
            return sp + '{' + self.content(d) + '}'
        if spec in ('[', 'o'):
            return (sp + '[' + self.content(d) + ']') if rng.random() < 0.6 else ''
        if spec in ('*', 's'):
            return '*' if rng.random() < 0.5 else ''
        if spec == 't+':
            return '+' if rng.random() < 0.5 else ''
        if spec == 'r()':
            return sp + '(' + self.content(d) + ')'
        if spec == 'd<>':
            return ('<' + self.content(d) + '>') if rng.random() < 0.6 else ''
        if spec == 'v':
            o = rng.choice(['{', '{', '[', '<', '(', '|', '+', '!'])
            c = {'{': '}', '[': ']', '<': '>', '(': ')'}.get(o, o)
            return sp + o + self.verb_payload(o, c) + c
        if spec == 'v{}':
            return sp + '{' + self.verb_payload('{', '}') + '}'
        if spec == 'AnyDelimited':
            o = rng.choice(['{', '[', '<', '('])
            c = {'{': '}', '[': ']', '<': '>', '(': ')'}[o]
            return sp + o + self.content(d) + c
        if spec == 'AnyDelimitedOptional':
            if rng.random() < 0.5:
                return ''
            o = rng.choice(['{', '[', '<', '('])
            c = {'{': '}', '[': ']', '<': '>', '(': ')'}[o]
            return o + self.content(d) + c
        return '{' + self.content(d) + '}'

    def macro_call(self, name, spec, depth):
        s = '\\' + name + ''.join(self.arg(a, depth) for a in spec)
        if not spec or s.endswith(name):
            s += self.rng.choice([' ', '{}', ' '])
        return s

    def piece(self, depth, math=False):
        rng = self.rng
        x = rng.random()
        if depth <= 0 or x < 0.22:
            return self.text() + rng.choice(['', ' ', ' '])
        if x < 0.30:
            return '{' + self.content(depth - 1, math) + '}'
        if x < 0.38 and not math:
            o, c = rng.choice([('$', '$'), ('$$', '$$'), ('\\(', '\\)'), ('\\[', '\\]')])
            return o + self.content(depth - 1, True) + c
        if x < 0.42:
            return '% ' + self.text() + '\n'
        if x < 0.47:
            return rng.choice(['~', '``', "''", '&', '\n\n', '\\\\', '\\%', ' '])
        if self.kind == 'K0':
            return self.piece_k0(depth, math)
        return self.piece_k1(depth, math)

    def piece_k0(self, depth, math):
        rng = self.rng
        d = depth - 1
        if self.legacy1 and rng.random() < 0.4:
            return rng.choice(['\\kmac{a}{b}[c]', '\\kmac[o]{a}{b}', '\\kmad{p}{q}{r} ', '\\kmad[x]{y}',
                               '\\kmac x y', '\\textbf{\\kmac{u}{v}}'])
        if self.extended and rng.random() < 0.2:
            n, spec = rng.choice(self.extended)
            return self.macro_call(n, spec, depth)
        c = rng.randrange(19)
        if c == 16:
            # line breaks with and without their optional argument, in text and in math
            return rng.choice(['a \\\\ b', 'a \\\\[2mm] b', '\\begin{tabular}{cc}a&b\\\\ [2mm] c&d\\end{tabular}',
                               '\\begin{align} A=0 \\\\ [C,D]=0 \\end{align}', '$x \\\\ [y]$', 'p \\\\* [q] r',
                               '\\begin{equation}u\\\\[1em] v\\end{equation}', 'first line \\\\ second'])
        if c == 17:
            # the same macro defined with different signatures, and used
            return '\\newcommand{\\foo}' + rng.choice(['[2]', '[2][x]', '[1]', '[1][d]', '']) + '{(#1)} ' + \
                rng.choice(['\\foo{a}{b}', '\\foo[o]{a}', '\\foo x', '\\foo{a}'])
        if c == 18:
            return rng.choice(['\\renewcommand\\bar[1]{y} \\bar{z}', '\\providecommand{\\foo}[2]{q} \\foo{a}{b}',
                               '\\newenvironment{myenv}[1]{b}{e} \\begin{myenv}{x}y\\end{myenv}',
                               '\\verb+a|b+ \\verb|c+d|', '\\begin{tabular}{l|r}1&2\\end{tabular} \\begin{tabular}{c}3\\end{tabular}',
                               '\\documentclass[a4paper]{article} \\usepackage[utf8]{inputenc}',
                               '\\begin{enumerate}[a)]\\item x\\end{enumerate} \\begin{enumerate}\\item[b] y\\end{enumerate}'])
        if c == 0:
            return '\\textbf{' + self.content(d, math) + '}'
        if c == 1:
            return '\\emph{' + self.content(d, math) + '}'
        if c == 2:
            return '\\frac{' + self.content(d, True) + '}{' + self.text() + '}'
        if c == 3:
            return '\\sqrt' + rng.choice(['', '[3]']) + '{' + self.text() + '}'
        if c == 4:
            return '\\section' + rng.choice(['', '*']) + rng.choice(['', '[s]']) + '{' + self.content(d) + '}'
        if c == 5:
            o = rng.choice(['|', '+', '!'])
            return '\\verb' + rng.choice(['', '*']) + o + rng.choice(['a{b', '\\x %', '}$']) + o
        if c == 6:
            return '\\begin{itemize}\\item ' + self.content(d) + '\\item[' + self.text() + '] y\\end{itemize}'
        if c == 7:
            return '\\begin{equation}' + self.content(d, True) + '\\end{equation}'
        if c == 8:
            return '\\begin{verbatim}' + rng.choice(['a{b\n', '\\x %\n$', 'text']) + '\\end{verbatim}'
        if c == 9:
            return '\\begin{tabular}{cc}' + self.text() + '&' + self.text() + '\\\\ \\end{tabular}'
        if c == 10:
            return '\\cite' + rng.choice(['', '[p]', '[a][b]']) + '{k}'
        if c == 11:
            return '\\newcommand' + rng.choice(['', '*']) + '{\\foo}' + rng.choice(['', '[1]', '[2][d]']) + \
                '{' + self.content(d) + '}'
        if c == 12:
            return '\\unknownmacro' + rng.choice([' ', '{a}'])
        if c == 13:
            return '\\begin{lstlisting}' + rng.choice(['', '[language=C]']) + 'x{y\n\\end{lstlisting}'
        if c == 14:
            return '\\begin{unknownenv}' + self.content(d) + '\\end{unknownenv}'
        return '\\item ' + self.text()

    def piece_k1(self, depth, math):
        rng = self.rng
        d = depth - 1
        x = rng.random()
        if self.extended and x < 0.12:
            n, spec = rng.choice(self.extended)
            return self.macro_call(n, spec, depth)
        if x < 0.55:
            n, spec = rng.choice(K1_MACROS)
            if rng.random() < 0.45:
                # bias towards the stateful parser kinds
                n, spec = rng.choice([m for m in K1_MACROS if any(a.startswith('v') for a in m[1])])
            return self.macro_call(n, spec, depth)
        if x < 0.70 and self.kind == 'K2':
            c = rng.randrange(10)
            if c == 0:
                return '\\sva{' + self.verb_payload('{', '}') + '}'
            if c == 1:
                return '\\svb' + rng.choice(['', '[o]']) + '{' + self.verb_payload('{', '}') + '}'
            if c == 2:
                return '\\svc' + self.arg('v', d)
            if c == 3:
                return '\\svd' + self.arg('v', d) + self.arg('v', d)
            if c == 4:
                return '\\sca{' + rng.choice(['a b', 'x{y}z', '% c\nq']) + '}'
            if c == 5:
                return '\\scb' + rng.choice(['', '*']) + '{p{q}r}'
            if c == 6:
                return '\\scl{' + rng.choice(['a,b', 'a,{b,c},d', '', 'x,,y', 'one']) + '}'
            if c == 7:
                return '\\scm{a,b}{' + rng.choice(['c', 'c,d,e']) + '}'
            if c == 8:
                return '\\sta{x}' + rng.choice(['', '\\label{l}', '\\tag{1}\\tag{2}', '\\label{a}\\tag{t}'])
            return '\\begin{esv}{' + self.verb_payload('{', '}') + '}' + self.content(d) + '\\end{esv}'
        if x < 0.80:
            c = rng.randrange(6)
            if c == 0:
                return '\\begin{en}' + rng.choice(['', '[o]']) + '{m}' + self.content(d) + '\\end{en}'
            if c == 1:
                return '\\begin{em}' + self.content(d, True) + '\\end{em}'
            if c == 2:
                return '\\begin{ev}' + rng.choice(['a{b', '\\x}', '$%\n']) + '\\end{ev}'
            if c == 3:
                return '\\begin{evv}' + self.arg('v', d) + self.content(d) + '\\end{evv}'
            if c == 4:
                if rng.random() < 0.6:
                    inner = rng.choice(['\\begin{xs}\\step[x]{mix}\\xam{p}{q}\\end{xs}', '\\xam[o]{a}{b} \\xbm{c}{d}',
                                        '\\begin{xs}[o]\\step{s} \\xam[t]{u}{v}\\end{xs} \\step[w]{z}'])
                    o = rng.choice(['xa', 'xb', 'xs'])
                    return '\\begin{%s}%s\\end{%s}' % (o, inner, o)
                if rng.random() < 0.5:
                    return rng.choice(['\\begin{snip}[raw]\\mb{x} $y$ %c\n\\end{snip}',
                                       '\\begin{snip}\\mb{x} $y$ %c\n\\end{snip}'])
                return '!v' + self.arg('v', d)
            return '\\begin{unk}' + self.content(d) + '\\end{unk}'
        if x < 0.90:
            c = rng.randrange(5)
            if c == 0:
                return '\\lg' + rng.choice(['', '*']) + rng.choice(['', '[o]']) + '{' + self.content(d) + '}'
            if c == 1:
                o = rng.choice(['|', '+', '{'])
                cl = '}' if o == '{' else o
                return '\\lv' + o + rng.choice(['a b', '\\x', '$']) + cl
            if c == 2:
                if rng.random() < 0.6:
                    return rng.choice(['\\lgs{def} % c\nx', '\\lgs{x} % d\ny', '\\lgs{x}', 'a % b\n\\lgs{def}'])
                return '\\ls' + rng.choice(['', '[o]']) + '{' + self.text() + '}'
            if c == 3:
                if rng.random() < 0.7:
                    return rng.choice(['\\sm[o]{a}{b}', '\\sm{a}{b}', '\\smm*[o]{a}', '\\smm{a}',
                                       '\\lgm{x^2 % c\n}{t % d\n}', '\\me^{a}_{b}', '\\me_x',
                                       '\\begin{se}[o]{m}a_b % e\n\\end{se}', '\\begin{se}{m}$x$\\end{se}'])
                return '\\begin{lverb}' + rng.choice(['a{b', 'x\n']) + '\\end{lverb}'
            return '\\unknownmacro '
        if x < 0.95:
            if rng.random() < 0.5:
                return rng.choice(['{\\defs{x} a~~b &&{c} !w}', '\\defs{y}\\begin{denv}[o]z\\end{denv} ~~',
                                   'a~~b && c !w \\begin{denv}[o]z\\end{denv}', '~~ \\defs{z} ~~ &&{q}'])
            return '\\defn{x}' + rng.choice(['\\defd{y}', '\\defd[o]{y}', ' then \\defd{z} and \\mv{q{r}}'])
        return rng.choice(['\\mb{\\mv{a{b}c}}', '\\mx*[\\mw{p{q}}]{r}', '\\mr(\\md<x>(y))', '\\mA[\\mB<z>]',
                           '\\fin{ok} t', '\\fim[o]{fine}', '\\fin{a\\mb{b}}', '\\mb{\\fin{in}}'])

    def document(self):
        depth = self.rng.choice([1, 2, 2, 3, 3, 4, 6])
        doc = self.content(depth)
        while len(doc) > 160:
            doc = self.content(max(depth - 1, 1))
        return doc


def parser_doc(rng, name):
    """A text on which the individual parser object `name` (c09.PARSER_NAMES) has something to do."""
    g = DocGen(rng, ['K1'])
    tail = rng.choice(['', ' tail', '{z}', ' % c\n'])
    if name in ('verbdelim', 'stdarg-v'):
        return g.arg('v', 2).lstrip() + tail
    if name == 'verbbrace':
        return g.arg('v{}', 2).lstrip() + tail
    if name == 'charsgroup':
        return rng.choice(['{a {b} c}', '{x % c\ny}', '{p{q{r}}s}', '{}']) + tail
    if name == 'commalist':
        return rng.choice(['{a,b,{c,d}}', '{x,,y}', '{one}', '{a, b % c\n,d}', '{}']) + tail
    if name in ('multidelim', 'anygroup'):
        return g.arg('AnyDelimited', 2).lstrip() + tail
    if name == 'optstar':
        return rng.choice(['*x', '+{a}', 'x', ' *']) + tail
    if name == 'tackon':
        return rng.choice(['\\label{a}\\tag{b} x', '\\tag{1}\\tag{2}', 'x', '\\label{l} \\label{m}']) + tail
    if name == 'stdarg-o':
        return rng.choice(['[o]', '[a[b]c]', 'x', '[\\mb{q}]']) + tail
    if name == 'argsparser':
        return rng.choice(['*[o]{m}|v| t', '{m}{a{b}c}', '[o]x+v+', '*\\mb{x}{v}']) + tail
    if name == 'envbody':
        return g.content(2) + '\\end{en}' + tail
    if name == 'verbenv':
        return rng.choice(['a{b', '\\x %\n$', 'text']) + '\\end{ev}' + tail
    if name == 'group':
        return '{' + g.content(2) + '}' + tail
    if name == 'math':
        o, c = rng.choice([('$', '$'), ('$$', '$$'), ('\\(', '\\)'), ('\\[', '\\]')])
        return o + g.content(2, True) + c + tail
    if name == 'optsq':
        return rng.choice(['[' + g.content(1) + ']', 'x']) + tail
    return g.content(2) + tail


def faulty_variant(rng, doc):
    """Strict-mode aborts: truncate, or delete / add one delimiter."""
    x = rng.random()
    if not doc:
        return '}'
    if x < 0.4:
        return doc[:rng.randrange(len(doc))] if len(doc) > 1 else doc
    idx = [i for i, ch in enumerate(doc) if ch in '{}[]()<>$\\']
    if x < 0.7 and idx:
        i = rng.choice(idx)
        return doc[:i] + doc[i + 1:]
    i = rng.randrange(len(doc) + 1)
    return doc[:i] + rng.choice(['{', '}', '[', ']', '$', '\\end{en}', '\\begin{en}', '\\', ')', '>']) + doc[i:]


SOUP = ['{', '}', '[', ']', '$', '$$', '\\(', '\\)', '\\[', '\\]', '\\mv', '\\mx', '\\begin{en}', '\\end{en}',
        'a', ' ', '%', '\n', '\n\n', '~', '&', '\\', '*', '<', '>', '(', ')', '|', '\\verb', '\\item',
        '\\begin{ev}', '\\end{ev}', '!v', '\\sva', '\\scl', ',', '\\defn', '\\defd']


def token_soup(rng):
    return ''.join(rng.choice(SOUP) for _ in range(rng.randint(2, 12)))

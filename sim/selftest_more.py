# -*- coding: utf-8 -*-
"""Determinism and sensitivity self-tests (DESIGN.md 2.7)."""
from __future__ import print_function

import glob
import json
import os
import re
import shutil
import subprocess
import sys
import tempfile
import time

import core

PROPS = ['C09', 'C14', 'C15', 'C17']


def out(*a):
    print(*a)
    sys.stdout.flush()


# --------------------------------------------------------------------------
# determinism: same seed -> same per-run trace digests, whatever the number of
# workers and the harness's own hash seed

def cmd_determinism_dump(args):
    prop, n, jobs = args[0], int(args[1]), int(args[2])
    seed = int(os.environ.get('VERIF_SEED', '0') or 0)
    b = core.Batch(prop, seed, 'quick', n, 3600, jobs=jobs, keep_digests=True).run()
    sys.stdout.write(json.dumps({'digests': {str(k): v for k, v in b.run_digests.items()},
                                 'harness_errors': b.harness_errors[:3],
                                 'violations': len(b.violations)}) + '\n')
    return 0


def cmd_determinism(args):
    props = [a for a in args if a in PROPS] or PROPS
    nums = [int(a) for a in args if a.isdigit()]
    n = nums[0] if nums else 400
    configs = [(4, '0'), (16, '0'), (8, '12345'), (16, 'random')]
    bad = 0
    for prop in props:
        results = []
        t0 = time.time()
        for jobs, hs in configs:
            env = dict(os.environ)
            env['PYTHONHASHSEED'] = hs
            p = subprocess.run([core.PYTHON, '-B', os.path.join(core.SIM_DIR, 'check.py'), 'selftest',
                                'determinism-dump', prop, str(n), str(jobs)],
                               env=env, stdout=subprocess.PIPE, cwd=core.VERIF_DIR, timeout=3600)
            rep = json.loads(p.stdout.decode('utf-8').strip().splitlines()[-1])
            if rep['harness_errors']:
                out("HARNESS-ERROR %s: %s" % (prop, rep['harness_errors'][0]))
                bad += 1
            results.append(rep['digests'])
        ref = results[0]
        mism = 0
        for other in results[1:]:
            for r, d in ref.items():
                if other.get(r) != d:
                    mism += 1
        out("determinism %s: %d runs x %d configurations (workers/harness hash seed: %s), %d mismatching "
            "digests, %.1fs" % (prop, len(ref), len(configs),
                                ', '.join('%d/%s' % c for c in configs), mism, time.time() - t0))
        if mism or len(ref) != n:
            bad += 1
    return 0 if not bad else 2


# --------------------------------------------------------------------------
# sensitivity: every patch under /verif/mutants (and /verif/seeded/*/patch.diff)
# must be detected by the quick check of its property, on a scratch copy

def _scratch_copy():
    top = tempfile.mkdtemp(prefix='verif-mut-', dir='/var/tmp')
    subprocess.check_call(['rsync', '-a', '--exclude', '.git', '--exclude', '__pycache__',
                           core.repo_path() + '/', top + '/'])
    return top


def _patch_props(path):
    props = []
    meta = os.path.join(os.path.dirname(path), 'meta.json')
    if os.path.basename(path) == 'patch.diff' and os.path.exists(meta):
        m = json.load(open(meta))
        p = m.get('property')
        props = p if isinstance(p, list) else str(p).replace(',', ' ').split()
    else:
        for line in open(path, encoding='utf-8'):
            mm = re.match(r'#\s*property:\s*(.*)', line)
            if mm:
                props = mm.group(1).replace(',', ' ').split()
                break
    return [p for p in props if p in PROPS]


def run_mutant(path, runs=None, verbose=False):
    props = _patch_props(path)
    if not props:
        return {'patch': path, 'status': 'skipped (no claimed property named)'}
    top = _scratch_copy()
    try:
        p = subprocess.run(['patch', '-p1', '-s', '-d', top, '-i', path], stdout=subprocess.PIPE,
                           stderr=subprocess.STDOUT)
        if p.returncode != 0:
            return {'patch': path, 'status': 'PATCH-DOES-NOT-APPLY', 'detail': p.stdout.decode()[-300:]}
        res = {'patch': path, 'props': props, 'status': 'MISSED', 'by': []}
        for prop in props:
            env = dict(os.environ)
            env['VERIF_REPO'] = top
            env['VERIF_NO_DETCHECK'] = '1'
            env['VERIF_EVIDENCE_DIR'] = os.path.join(top, '.evidence')
            cmd = [core.PYTHON, '-B', os.path.join(core.SIM_DIR, 'check.py'), prop, '--tier', 'quick']
            if runs:
                cmd += ['--runs', str(runs)]
            t0 = time.time()
            q = subprocess.run(cmd, env=env, stdout=subprocess.PIPE, stderr=subprocess.STDOUT,
                               cwd=core.VERIF_DIR, timeout=3600)
            text = q.stdout.decode('utf-8', 'replace')
            vio = [l for l in text.splitlines() if l.startswith('VIOLATION')]
            inv = [l for l in text.splitlines() if l.startswith('violation')]
            res['by'].append({'prop': prop, 'exit': q.returncode, 'violations': vio[:3],
                              'first': inv[:1], 'wall_s': round(time.time() - t0, 1)})
            if q.returncode == 1 and vio:
                res['status'] = 'DETECTED'
            elif q.returncode == 2:
                res['status'] = 'HARNESS-ERROR'
                res['detail'] = text[-600:]
            if verbose:
                out(text)
        return res
    finally:
        shutil.rmtree(top, ignore_errors=True)


def cmd_mutants(args):
    runs = None
    names = []
    for a in args:
        if a.startswith('--runs='):
            runs = int(a.split('=')[1])
        else:
            names.append(a)
    paths = sorted(glob.glob(os.path.join(core.VERIF_DIR, 'mutants', '*.patch'))) + \
        sorted(glob.glob(os.path.join(core.VERIF_DIR, 'seeded', '*', 'patch.diff')))
    if names:
        paths = [p for p in paths if any(n in p for n in names)]
    missed = 0
    for path in paths:
        r = run_mutant(path, runs)
        short = os.path.relpath(path, core.VERIF_DIR)
        det = '; '.join('%s exit=%s %ss %s' % (b['prop'], b['exit'], b['wall_s'], (b['first'] or [''])[0][:110])
                        for b in r.get('by', []))
        out("%-14s %s  %s %s" % (r['status'], short, det, r.get('detail', '')))
        if r['status'] not in ('DETECTED',) and not r['status'].startswith('skipped'):
            missed += 1
    out("mutants: %d patches, %d not detected" % (len(paths), missed))
    return 0 if not missed else 1

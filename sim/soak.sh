#!/bin/bash
# soak: quick (or $2) tier of every check for a range of VERIF_SEED values; prints one line per run
# usage: sim/soak.sh "<seeds>" [tier] [jobs]
tier=${2:-quick}; jobs=${3:-8}
export VERIF_EVIDENCE_DIR=${VERIF_EVIDENCE_DIR:-/var/tmp/verif-soak-evidence}
mkdir -p "$VERIF_EVIDENCE_DIR"
for s in $1; do
  for p in C09 C14 C15 C17; do
    out=$(VERIF_SEED=$s VERIF_JOBS=$jobs timeout 7200 /venv/bin/python -B sim/check.py $p --tier $tier 2>&1)
    rc=$?
    echo "seed=$s $p exit=$rc $(echo "$out" | grep "^$p $tier" | tail -1)"
    if [ $rc -ne 0 ]; then echo "$out" | grep -v "^  " | tail -20; fi
  done
done

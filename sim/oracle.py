# -*- coding: utf-8 -*-
"""Companion reference server for C09: an interpreter started under another
PYTHONHASHSEED that imports pylatexenc and, per request, forks a child which
builds the context from its recipe, executes that single operation and returns
the canonical dump.  It never parses anything itself."""
from __future__ import print_function

import json
import os
import sys

sys.path.insert(0, os.path.dirname(os.path.abspath(__file__)))

import core  # noqa: E402


def main():
    proto = os.fdopen(os.dup(1), 'w')
    os.dup2(2, 1)
    sys.stdout = sys.stderr
    core.import_sut()
    import c09
    for line in sys.stdin:
        line = line.strip()
        if not line:
            continue
        recipe, request = json.loads(line)
        status, val = core.fork_call(c09.reference_single, recipe, request)
        proto.write(json.dumps([status, val]) + '\n')
        proto.flush()
    return 0


if __name__ == '__main__':
    sys.exit(main())

#!/venv/bin/python -B
"""setup_cmd: nothing is built (pure Python); verify that the interpreter can
import pylatexenc from the repository working tree and that fork works."""
import os
import sys

sys.path.insert(0, os.path.dirname(os.path.abspath(__file__)))

import core  # noqa: E402


def main():
    repo = core.repo_path()
    core.import_sut()
    import pylatexenc
    assert os.path.realpath(pylatexenc.__file__).startswith(os.path.realpath(repo) + os.sep), \
        (pylatexenc.__file__, repo)
    status, val = core.fork_call(lambda: 6 * 7)
    assert (status, val) == ("ok", 42), (status, val)
    for d in ("evidence", "replays"):
        os.makedirs(os.path.join(core.VERIF_DIR, d), exist_ok=True)
    print("setup ok: pylatexenc %s from %s; fork ok" % (pylatexenc.__version__, repo))
    return 0


if __name__ == "__main__":
    sys.exit(main())

# -*- coding: utf-8 -*-
"""Common machinery of the deterministic simulation harness (DESIGN.md section 2).

* one integer decides everything: run r of property P draws from
  random.Random("P:<VERIF_SEED>:<r>"), generates a complete JSON program and
  only then executes it;
* every execution happens in a pristine fork of a worker that has only
  *imported* pylatexenc;
* worker processes are separate interpreters started with an explicit
  PYTHONHASHSEED (class = r mod 4);
* ddmin + argument shrinking, replay files, evidence writer, findings matcher.

No threads exist anywhere in the harness.
"""
from __future__ import print_function

import hashlib
import json
import os
import random
import select
import selectors
import signal
import subprocess
import sys
import time
import traceback

SIM_DIR = os.path.dirname(os.path.abspath(__file__))
VERIF_DIR = os.path.dirname(SIM_DIR)
PYTHON = '/venv/bin/python'
HASH_CLASSES = 4                      # run r executes under PYTHONHASHSEED = r mod 4
CHILD_WALL_GUARD_S = 60               # harness-hang guard only (never a verdict)

EXIT_OK, EXIT_VIOLATION, EXIT_HARNESS = 0, 1, 2


class HarnessError(Exception):
    """Anything that is the harness's fault (never reported as VIOLATION)."""


def repo_path():
    return os.path.realpath(os.environ.get('VERIF_REPO', '/repo'))


_sut_imported = False


def import_sut():
    """Import pylatexenc (all sub-packages the checks use) from $VERIF_REPO.

    Importing executes no parse, so a process that has only done this is the
    'fresh interpreter' every run forks from."""
    global _sut_imported
    if _sut_imported:
        return
    repo = repo_path()
    if sys.path[0] != repo:
        sys.path.insert(0, repo)
    sys.dont_write_bytecode = True
    import logging
    logging.disable(logging.CRITICAL)
    import pylatexenc
    got = os.path.realpath(pylatexenc.__file__)
    if not got.startswith(repo + os.sep):
        raise HarnessError("pylatexenc imported from %s, expected under %s" % (got, repo))
    import pylatexenc.latexnodes                      # noqa: F401
    import pylatexenc.latexnodes.parsers              # noqa: F401
    import pylatexenc.latexnodes.nodes                # noqa: F401
    import pylatexenc.macrospec                       # noqa: F401
    import pylatexenc.latexwalker                     # noqa: F401
    import pylatexenc.latexwalker._defaultspecs       # noqa: F401
    import pylatexenc.latex2text                      # noqa: F401
    import pylatexenc.latex2text._defaultspecs        # noqa: F401
    import pylatexenc.latexencode                     # noqa: F401
    _sut_imported = True


# --------------------------------------------------------------------------
# seeding, canonical JSON, digests

def run_rng(prop, seed, run):
    # str seeding goes through SHA-512: identical across processes, worker
    # counts and PYTHONHASHSEED.
    return random.Random("%s:%d:%d" % (prop, seed, run))


def canon(obj):
    return json.dumps(obj, sort_keys=True, separators=(',', ':'), ensure_ascii=True)


def digest(obj):
    return hashlib.sha256(canon(obj).encode('ascii')).hexdigest()


def short_digest(obj):
    return digest(obj)[:16]


# --------------------------------------------------------------------------
# pristine fork

def fork_call(fn, *args, **kwargs):
    """Run fn(*args) in a forked child; return (status, value).

    status: 'ok' (value = JSON-able result), 'exc' (value = traceback text of
    an exception that escaped fn -- a harness error), 'died' / 'timeout'."""
    wall = kwargs.pop('wall', CHILD_WALL_GUARD_S)
    rfd, wfd = os.pipe()
    sys.stdout.flush()
    sys.stderr.flush()
    pid = os.fork()
    if pid == 0:
        code = 0
        try:
            os.close(rfd)
            signal.signal(signal.SIGALRM, signal.SIG_DFL)
            signal.alarm(int(wall) + 5)
            try:
                res = ('ok', fn(*args, **kwargs))
            except BaseException:
                res = ('exc', traceback.format_exc())
            try:
                data = json.dumps(res).encode('utf-8')
            except BaseException:
                data = json.dumps(('exc', 'unserialisable result: ' +
                                   traceback.format_exc())).encode('utf-8')
            off = 0
            while off < len(data):
                off += os.write(wfd, data[off:off + 65536])
            os.close(wfd)
        except BaseException:
            code = 3
        finally:
            os._exit(code)
    os.close(wfd)
    chunks = []
    deadline = time.time() + wall
    status = None
    while True:
        left = deadline - time.time()
        if left <= 0:
            status = 'timeout'
            break
        r, _, _ = select.select([rfd], [], [], left)
        if not r:
            status = 'timeout'
            break
        b = os.read(rfd, 1 << 16)
        if not b:
            break
        chunks.append(b)
    os.close(rfd)
    if status == 'timeout':
        try:
            os.kill(pid, signal.SIGKILL)
        except OSError:
            pass
        os.waitpid(pid, 0)
        return ('timeout', None)
    _, st = os.waitpid(pid, 0)
    data = b''.join(chunks)
    if not data:
        return ('died', 'child exit status %r' % (st,))
    try:
        res = json.loads(data.decode('utf-8'))
    except ValueError:
        return ('died', 'truncated result (%d bytes), status %r' % (len(data), st))
    return (res[0], res[1])


# --------------------------------------------------------------------------
# zygote: every pristine child of a worker is forked from a process whose heap never changes

def zygote_noop():
    return 0


class Zygote(object):
    """A child of the worker, forked right after the imports, that does nothing but fork
    grandchildren on request.  The worker's own heap changes all the time (reference caches,
    statistics), and with it the memory layout a directly forked child would start from; then
    anything that depends on object addresses (id()-keyed caches, address reuse after garbage
    collection) would depend on how long the worker has been running and would not replay.
    The zygote allocates nothing between requests (requests are read into a preallocated
    buffer, results go through a file that only the grandchild and the worker touch), so every
    grandchild starts from the same heap and one seed is one execution, addresses included."""

    BUF = 4 << 20

    def __init__(self):
        self.req_r, self.req_w = os.pipe()
        self.st_r, self.st_w = os.pipe()
        base = '/dev/shm' if os.path.isdir('/dev/shm') and os.access('/dev/shm', os.W_OK) else '/tmp'
        self.res_path = os.path.join(base, 'verif-zygote-%d-%d.res' % (os.getpid(), id(self) & 0xffff))
        sys.stdout.flush()
        sys.stderr.flush()
        self.pid = os.fork()
        if self.pid == 0:
            try:
                os.close(self.req_w)
                os.close(self.st_r)
                self._serve()
            finally:
                os._exit(0)
        os.close(self.req_r)
        os.close(self.st_w)
        # two dummy requests: the zygote's own (tiny) allocation pattern reaches its steady state,
        # so the first real program sees the same heap as the thousandth
        for _ in range(2):
            self.call('core', 'zygote_noop', [], 10)

    # ---- zygote side
    def _serve(self):
        buf = bytearray(self.BUF)
        mv = memoryview(buf)
        hdr = bytearray(8)
        hmv = memoryview(hdr)
        while True:
            got = 0
            while got < 8:
                n = os.readv(self.req_r, [hmv[got:]])
                if n == 0:
                    return
                got += n
            size = int.from_bytes(hdr, 'big')
            got = 0
            while got < size:
                n = os.readv(self.req_r, [mv[got:size]])
                if n == 0:
                    return
                got += n
            pid = os.fork()
            if pid == 0:
                code = 0
                try:
                    import gc
                    gc.collect()         # same collector counters at the start of every execution
                    msg = json.loads(bytes(mv[:size]).decode('utf-8'))
                    signal.signal(signal.SIGALRM, signal.SIG_DFL)
                    signal.alarm(int(msg['wall']) + 5)
                    try:
                        fn = getattr(get_module(msg['mod']) if msg['mod'] in ('C09', 'C14', 'C15', 'C17')
                                     else __import__(msg['mod']), msg['fn'])
                        res = ('ok', fn(*msg['args']))
                    except BaseException:
                        res = ('exc', traceback.format_exc())
                    try:
                        data = json.dumps(res).encode('utf-8')
                    except BaseException:
                        data = json.dumps(('exc', 'unserialisable result: ' + traceback.format_exc())).encode('utf-8')
                    with open(self.res_path, 'wb') as f:
                        f.write(data)
                except BaseException:
                    code = 3
                finally:
                    os._exit(code)
            _, st = os.waitpid(pid, 0)
            # fixed-size status frame: 'S' + 7 digits of the wait status
            os.write(self.st_w, b'S%07d' % (st & 0xffffff))

    # ---- worker side
    def call(self, mod, fn, args, wall):
        data = json.dumps({'mod': mod, 'fn': fn, 'args': args, 'wall': wall}).encode('utf-8')
        if len(data) > self.BUF:
            raise HarnessError("request too large for the zygote buffer")
        try:
            os.unlink(self.res_path)
        except OSError:
            pass
        os.write(self.req_w, len(data).to_bytes(8, 'big'))
        off = 0
        while off < len(data):
            off += os.write(self.req_w, data[off:off + 65536])
        got = b''
        deadline = time.time() + wall + 20
        while len(got) < 8:
            left = deadline - time.time()
            r, _, _ = select.select([self.st_r], [], [], max(left, 0))
            if not r:
                self.kill()
                return ('timeout', None)
            b = os.read(self.st_r, 8 - len(got))
            if not b:
                return ('died', 'zygote gone')
            got += b
        st = int(got[1:])
        if os.WIFSIGNALED(st) and os.WTERMSIG(st) == signal.SIGALRM:
            return ('timeout', None)
        try:
            with open(self.res_path, 'rb') as f:
                payload = f.read()
            os.unlink(self.res_path)
        except OSError:
            return ('died', 'child exit status %r, no result' % (st,))
        if st != 0:
            return ('died', 'child exit status %r' % (st,))
        try:
            res = json.loads(payload.decode('utf-8'))
        except ValueError:
            return ('died', 'truncated result (%d bytes)' % len(payload))
        return (res[0], res[1])

    def kill(self):
        try:
            os.kill(self.pid, signal.SIGKILL)
        except OSError:
            pass
        try:
            os.waitpid(self.pid, 0)
        except OSError:
            pass
        self.pid = None

    def close(self):
        try:
            os.close(self.req_w)
        except OSError:
            pass
        if self.pid:
            try:
                os.waitpid(self.pid, 0)
            except OSError:
                pass
        try:
            os.close(self.st_r)
        except OSError:
            pass
        try:
            os.unlink(self.res_path)
        except OSError:
            pass


# --------------------------------------------------------------------------
# property modules

_MODULES = {}


def get_module(prop):
    if prop not in _MODULES:
        if SIM_DIR not in sys.path:
            sys.path.append(SIM_DIR)
        _MODULES[prop] = __import__(prop.lower())
    return _MODULES[prop]


class Counters(dict):
    def inc(self, key, n=1):
        self[key] = self.get(key, 0) + n

    def merge(self, other):
        for k, v in other.items():
            self[k] = self.get(k, 0) + v


# --------------------------------------------------------------------------
# worker pool (parent side)

_noaslr = []


def no_aslr_prefix():
    """Command prefix that starts a process without address-space randomisation (so that what
    depends on object addresses -- id()-keyed caches, address reuse after garbage collection --
    is the same in every worker and replays); empty when the platform does not allow it."""
    if not _noaslr:
        import platform
        import shutil
        pre = []
        exe = shutil.which('setarch')
        if exe:
            cand = [exe, platform.machine(), '-R']
            try:
                a = subprocess.run(cand + [PYTHON, '-c', 'print(id(object()))'], stdout=subprocess.PIPE,
                                   stderr=subprocess.DEVNULL, timeout=30)
                b = subprocess.run(cand + [PYTHON, '-c', 'print(id(object()))'], stdout=subprocess.PIPE,
                                   stderr=subprocess.DEVNULL, timeout=30)
                if a.returncode == 0 and b.returncode == 0 and a.stdout == b.stdout and a.stdout.strip():
                    pre = cand
            except Exception:
                pre = []
        _noaslr.append(pre)
    return list(_noaslr[0])


class Worker(object):
    def __init__(self, hashclass, hashseed=None):
        self.hashclass = hashclass
        env = dict(os.environ)
        env['PYTHONHASHSEED'] = str(hashclass if hashseed is None else hashseed)
        env['VERIF_REPO'] = repo_path()
        env.pop('PYTHONPATH', None)
        # never trust byte-code caches lying around in the repository: compile from the sources
        env['PYTHONPYCACHEPREFIX'] = os.path.join(VERIF_DIR, '.no-pycache')
        env['PYTHONDONTWRITEBYTECODE'] = '1'
        self.proc = subprocess.Popen(
            no_aslr_prefix() + [PYTHON, '-B', os.path.join(SIM_DIR, 'worker.py')],
            stdin=subprocess.PIPE, stdout=subprocess.PIPE, env=env, cwd=VERIF_DIR)
        self.busy = None
        self.buf = b''

    def send(self, msg):
        self.proc.stdin.write((json.dumps(msg) + '\n').encode('utf-8'))
        self.proc.stdin.flush()

    def recv_blocking(self, wall=600):
        """Read one reply line (used for single requests: replay, shrinking)."""
        fd = self.proc.stdout.fileno()
        deadline = time.time() + wall
        while b'\n' not in self.buf:
            left = deadline - time.time()
            if left <= 0:
                raise HarnessError("worker reply timeout")
            r, _, _ = select.select([fd], [], [], left)
            if not r:
                raise HarnessError("worker reply timeout")
            b = os.read(fd, 1 << 16)
            if not b:
                raise HarnessError("worker died (exit %r)" % (self.proc.poll(),))
            self.buf += b
        line, self.buf = self.buf.split(b'\n', 1)
        return json.loads(line.decode('utf-8'))

    def request(self, msg, wall=600):
        self.send(msg)
        rep = self.recv_blocking(wall)
        if 'harness_error' in rep:
            raise HarnessError(rep['harness_error'])
        return rep

    def close(self):
        try:
            self.proc.stdin.close()
        except Exception:
            pass
        try:
            self.proc.wait(timeout=10)
        except Exception:
            self.proc.kill()
            self.proc.wait()
        try:
            self.proc.stdout.close()
        except Exception:
            pass


def n_jobs():
    j = int(os.environ.get('VERIF_JOBS', '0') or 0)
    if j <= 0:
        j = os.cpu_count() or 4
    # a multiple of the number of hash-seed classes, at least one worker each
    return max(HASH_CLASSES, (j // HASH_CLASSES) * HASH_CLASSES)


# runs re-executed by every quick check for the determinism sample: the first 24, and runs that belong
# to the volume batches of the four properties (C09 long: 33 mod 40; C17 long: 49 mod 50; C15 long:
# 93, 97 mod 100; C14 wide: 99 mod 100)
DET_SAMPLE = frozenset(list(range(24)) + [33, 49, 73, 93, 97, 99, 113, 149])


class Batch(object):
    """Execute runs [0, n) of a property and merge the results."""

    def __init__(self, prop, seed, tier, n_runs, wall_cap, jobs=None, chunk=None,
                 keep_digests=False, quiet=False, run_list=None):
        self.run_list = run_list          # explicit run numbers instead of range(n_runs)
        self.prop, self.seed, self.tier = prop, seed, tier
        self.n_runs, self.wall_cap = n_runs, wall_cap
        self.jobs = jobs or n_jobs()
        self.chunk = chunk
        self.keep_digests = keep_digests
        self.quiet = quiet
        self.stats = Counters()
        self.sets = {}            # name -> set of short digests (distinct measures)
        self.samples = []
        self.violations = []      # dicts: run, hashclass, invariant, ...
        self.harness_errors = []
        self.timeouts = []        # programs whose child never came back (to be confirmed by the caller)
        self.run_digests = {}
        self.completed = 0
        self.cut_short = False
        self.wall_s = 0.0

    def run(self):
        t0 = time.time()
        per_class = self.jobs // HASH_CLASSES
        workers = [Worker(c) for c in range(HASH_CLASSES) for _ in range(per_class)]
        # pending chunks per hash class, in run order
        chunk = self.chunk or max(1, min(100, self.n_runs // (self.jobs * 8) or 1))
        pending = {c: [] for c in range(HASH_CLASSES)}
        for c in range(HASH_CLASSES):
            if self.run_list is not None:
                runs = [r for r in self.run_list if r % HASH_CLASSES == c]
            else:
                runs = list(range(c, self.n_runs, HASH_CLASSES))
            for i in range(0, len(runs), chunk):
                pending[c].append(runs[i:i + chunk])
        sel = selectors.DefaultSelector()
        try:
            for w in workers:
                os.set_blocking(w.proc.stdout.fileno(), False)
                sel.register(w.proc.stdout.fileno(), selectors.EVENT_READ, w)
            active = 0
            for w in workers:
                if self._dispatch(w, pending):
                    active += 1
            while active:
                events = sel.select(timeout=CHILD_WALL_GUARD_S * 15)
                if not events:
                    self.harness_errors.append("no worker progress for %ds" %
                                               (CHILD_WALL_GUARD_S * 15))
                    break
                for key, _ in events:
                    w = key.data
                    try:
                        b = os.read(key.fd, 1 << 20)
                    except BlockingIOError:
                        continue
                    if not b:
                        sel.unregister(key.fd)
                        if w.busy is not None:
                            self.harness_errors.append(
                                "worker (hash class %d) died on runs %r..." %
                                (w.hashclass, w.busy[:3]))
                            w.busy = None
                            active -= 1
                        continue
                    w.buf += b
                    while b'\n' in w.buf:
                        line, w.buf = w.buf.split(b'\n', 1)
                        self._absorb(json.loads(line.decode('utf-8')))
                        w.busy = None
                        active -= 1
                        if time.time() - t0 > self.wall_cap:
                            self.cut_short = True
                        elif len(self.harness_errors) >= 12:
                            # something is systematically wrong (e.g. the code under test hangs):
                            # stop handing out work, the exit code will be 2
                            self.cut_short = True
                        elif self._dispatch(w, pending):
                            active += 1
        finally:
            for w in workers:
                if w.busy is not None or self.harness_errors:
                    try:
                        w.proc.kill()
                    except Exception:
                        pass
                w.close()
            sel.close()
        if any(pending.values()):
            self.cut_short = True
        self.wall_s = time.time() - t0
        self.violations.sort(key=lambda v: v['run'])
        return self

    def _dispatch(self, w, pending):
        q = pending[w.hashclass]
        if not q:
            return False
        runs = q.pop(0)
        w.busy = runs
        w.send({'cmd': 'chunk', 'prop': self.prop, 'seed': self.seed,
                'tier': self.tier, 'runs': runs})
        return True

    def _absorb(self, rep):
        if 'harness_error' in rep:
            self.harness_errors.append(rep['harness_error'])
            return
        self.stats.merge(rep['stats'])
        for name, items in rep['sets'].items():
            self.sets.setdefault(name, set()).update(items)
        for s in rep['samples']:
            if len(self.samples) < 12:
                self.samples.append(s)
        self.violations.extend(rep['violations'])
        self.harness_errors.extend(rep['harness_errors'])
        self.timeouts.extend(rep.get('timeouts', []))
        self.completed += rep['completed']
        if self.keep_digests:
            for r, d in rep['digests']:
                self.run_digests[r] = d
        else:
            for r, d in rep['digests']:
                if r in DET_SAMPLE:
                    self.run_digests[r] = d


# --------------------------------------------------------------------------
# single-program execution through a fresh worker (replay, shrinking)

class ProgramRunner(object):
    def __init__(self, prop, hashclass):
        self.prop = prop
        self.hashclass = hashclass
        self.worker = Worker(hashclass)
        self.executions = 0

    def run(self, program, timeout_is_violation=False):
        self.executions += 1
        try:
            rep = self.worker.request({'cmd': 'program', 'prop': self.prop, 'program': program})
        except HarnessError as e:
            if timeout_is_violation and 'timeout in pristine child' in str(e):
                return {'violation': {'invariant': 'operation-terminates', 'op_index': None, 'op': None,
                                      'observed': 'the program did not finish within its wall-time guard '
                                                  '(20-60 s; it normally takes milliseconds)',
                                      'expected': 'every operation returns'},
                        'digest': 'timeout', 'trace': None}
            raise
        return rep          # {'violation':..., 'digest':..., 'stats':..., 'trace':...}

    def close(self):
        self.worker.close()


def ddmin(items, test):
    """Classic ddmin on a list; test(sub_list) -> True when still failing."""
    n = 2
    while len(items) >= 2:
        size = len(items) // n
        if size == 0:
            break
        reduced = False
        for i in range(n):
            lo, hi = i * size, (i + 1) * size if i < n - 1 else len(items)
            cand = items[:lo] + items[hi:]
            if cand and test(cand):
                items = cand
                n = max(n - 1, 2)
                reduced = True
                break
        if not reduced:
            if n >= len(items):
                break
            n = min(len(items), n * 2)
    # final one-by-one pass
    i = 0
    while i < len(items) and len(items) > 1:
        cand = items[:i] + items[i + 1:]
        if test(cand):
            items = cand
        else:
            i += 1
    return items


def minimise(prop, program, violation, hashclass, budget_exec=600, budget_s=120):
    """Shrink a failing program, keeping the violation class (= invariant name)."""
    mod = get_module(prop)
    runner = ProgramRunner(prop, hashclass)
    t0 = time.time()
    inv = violation['invariant']
    best = {'program': program, 'violation': violation}

    class Out(Exception):
        pass

    def fails(cand_program):
        if runner.executions >= budget_exec or time.time() - t0 > budget_s:
            raise Out()
        try:
            rep = runner.run(cand_program)
        except HarnessError:
            return False          # candidate is not a valid program
        v = rep.get('violation')
        if v and v['invariant'] == inv:
            best['program'], best['violation'] = cand_program, v
            return True
        return False

    try:
        if not fails(program):
            return None, runner.executions    # does not reproduce: nondeterministic harness
        changed = True
        while changed:
            changed = False
            cur = best['program']
            ops = ddmin(list(cur['ops']), lambda sub: fails(dict(cur, ops=sub)))
            if len(ops) < len(cur['ops']):
                changed = True
            # argument shrinking, greedy restart on success
            progress = True
            while progress:
                progress = False
                for cand in mod.shrink_candidates(best['program']):
                    if canon(cand) == canon(best['program']):
                        continue
                    if fails(cand):
                        progress = True
                        changed = True
                        break
    except Out:
        pass
    finally:
        runner.close()
    return best, runner.executions


# --------------------------------------------------------------------------
# known findings

def load_findings():
    """known_findings.txt: 'fixed: ...' lines are informational (they suppress
    nothing); 'finding: {json}' lines are open findings."""
    path = os.path.join(VERIF_DIR, 'known_findings.txt')
    out = []
    if os.path.exists(path):
        for line in open(path, encoding='utf-8'):
            line = line.strip()
            if line.startswith('finding:'):
                out.append(json.loads(line[len('finding:'):]))
    return out


def match_finding(findings, prop, key):
    for f in findings:
        if f.get('property') == prop and f.get('key') == key:
            return f
    return None


# --------------------------------------------------------------------------
# evidence

def write_evidence(prop, tier, seed, coverage, assumptions, wall_s, violations):
    # VERIF_EVIDENCE_DIR is only set by the sensitivity self-test (runs against a mutated
    # scratch copy must not overwrite the evidence of /repo)
    path = os.path.join(os.environ.get('VERIF_EVIDENCE_DIR') or os.path.join(VERIF_DIR, 'evidence'),
                        prop + '.json')
    os.makedirs(os.path.dirname(path), exist_ok=True)
    ev = {
        'property_id': prop, 'tier': tier, 'seed': seed, 'level': 'exploration',
        'coverage': coverage, 'assumptions': assumptions,
        'wall_s': round(wall_s, 2), 'violations': violations,
    }
    tmp = path + '.tmp'
    with open(tmp, 'w') as f:
        json.dump(ev, f, indent=1, sort_keys=True)
        f.write('\n')
    os.replace(tmp, path)
    return path

# -*- coding: utf-8 -*-
"""C17 -- a derived parsing state behaves exactly like a freshly built one
(DESIGN.md 3.4).

System: a growing tree of ParsingState objects built by seeded histories of
sub_context() calls.  Reference: ParsingState(**derived.get_fields()),
literally 'a parsing state constructed directly with the same field values'."""
from __future__ import print_function

import copy

import core
import dump as D
import simparse

PROP = 'C17'
MAX_LIVE = 10

DEFAULT_ALPHA = ''.join(chr(ord('a') + j) for j in range(26)) + \
    ''.join(chr(ord('A') + j) for j in range(26))

DOM = {
    'in_math_mode': [False, True],
    'math_mode_delimiter': [None, '$', '$$', '\\(', '\\[', '@', 'custom'],
    'latex_group_delimiters': [[['{', '}']], [['{', '}'], ['[', ']']], [['<', '>']],
                               [['{', '}'], ['<', '>'], ['(', ')']],
                               # an opener listed twice, pairs in another order
                               [['{', ')'], ['{', '}']], [['[', ']'], ['{', '}']], [['{', '}'], ['{', '>']]],
    'latex_inline_math_delimiters': [None, [['$', '$']], [['\\(', '\\)']], [['@', '@']],
                                     [['$', '$'], ['@', '@']], [],
                                     # overlapping with display lists
                                     [['@@', '@@'], ['$', '$']], [['\\[', '\\]']]],
    'latex_display_math_delimiters': [None, [['$$', '$$']], [['\\[', '\\]']], [['@@', '@@']], [],
                                      [['$', '$'], ['\\[', '\\]']], [['@', '@']], [['\\(', '\\)'], ['$$', '$$']]],
    'enable_double_newline_paragraphs': [True, False],
    'enable_macros': [True, False],
    'enable_environments': [True, False],
    'enable_comments': [True, False],
    'enable_groups': [True, False],
    'enable_specials': [True, False],
    'enable_math': [True, False],
    'macro_escape_char': ['\\', '!'],
    'comment_start': ['%', '#', '%%'],
    'forbidden_characters': ['', '$', '%{', 'x'],
    'macro_alpha_chars': [DEFAULT_ALPHA, 'ab', DEFAULT_ALPHA + '@'],
    'latex_context': ['none', 'default', 'small', 'grow'],
}
MATH_CONE = ('in_math_mode', 'math_mode_delimiter', 'latex_inline_math_delimiters',
             'latex_display_math_delimiters')
DELIM_LISTS = ('latex_group_delimiters', 'latex_inline_math_delimiters',
               'latex_display_math_delimiters')
DEFAULTS = {
    'latex_group_delimiters': [['{', '}']],
    'latex_inline_math_delimiters': [['$', '$'], ['\\(', '\\)']],
    'latex_display_math_delimiters': [['$$', '$$'], ['\\[', '\\]']],
}
ALPHABET = ['{', '}', '[', ']', '<', '>', '(', ')', '$', '$', '@', '\\', '!', '%', '#',
            'x', 'a', 'b', ' ', '\n', '~', '`', '&', '\\(', '\\)', '\\[', '\\]', '$$', '@@', '\n\n']
FIXED_PROBES = [
    'a$b$c', 'a$$b$$c', '\\(x\\)$', '\\[x\\]', 'a@b@c', '@@x@@', '{a}[b]<c>(d)', '\\ab c!ab d',
    '%c\nx #c\ny', '%%c\nx', 'a\n\nb', '\\begin{e}x\\end{e}', '!begin{e} !end{e}', 'a~b``c`&',
    'x$', '$$$', '\\', 'a !', '\\begin x',
]
PARSE_PROBES = [
    'a $b$ {c} \\ab[o]{m} ~', '\\begin{e}a $$b$$\\end{e} x', '\\(a\\) @b@ \\[c\\] <d>', 'a%c\n\nb \\x{y}',
    '\\begin{em}a_b $x$\\end{em} \\vb{p{q}r} \\vb|%|', '\\dl<a>(b)+ \\any[c] \\begin{eo}[o]{m}z\\end{eo}',
    '!ab[o]{m} !begin{em}x!end{em} #c\n!x<y>', '$a \\x{b$c$} d$ @@e@@',
    # arguments whose contents depend on fields other than the one that selects their parser
    'x + \\text{if % c} \\txt{a # b %% c} y\n z', '\\sqrt[n % t]{x} \\ab[p #q !r $s$]{m} \\mth[a_b %c\n]{d}',
    '\\mbox{a $b$ @c@ <d> !x{e}} ~ ``', '$\\txt{p $q$ \\(r\\)} s$ \\[t\\]',
]

PARSE_SNIPPETS = [
    'a ', '$b$', '$$c$$', '\\(d\\)', '\\[e\\]', '@f@', '{g}', '[h]', '<i>', '(j)', '% k\n', '# l\n', '%% m\n',
    '\\ab[o]{m}', '!ab[o]{m}', '\\x{y}', '\\text{t % u}', '\\txt{v # w}', '\\mbox{$x$ @y@}', '\\sqrt[n %% o]{p}',
    '\\vb{q{r}s}', '\\dl<a>(b)+', '\\any[c]', '\\begin{em}x_y\\end{em}', '\\begin{e}z\\end{e}', '!begin{e}z!end{e}',
    '\\begin{eo}[o]{m}w\\end{eo}', '\n\n', '~', '``', '&', '\\mth[a^b]{c}', 'x', '$', '}', '\\',
]

ASSUMPTIONS = [
    "reference = ParsingState(**derived.get_fields()): the constructor is trusted as the definition of "
    "'a parsing state constructed directly with the same field values'",
    "inputs are a fixed structured probe set plus seeded strings (length <= 8 symbols) over the alphabet of "
    "all configured delimiters, escape and comment characters, letters, space, newline and specials; "
    "sampling, not all strings up to the bound",
    "whole-parse comparison uses LatexGeneralNodesParser through LatexWalker(default_parsing_state=...) under "
    "a deterministic tick budget; a parse that exhausts the budget compares equal to itself",
]


# --------------------------------------------------------------------------
# generator

def _pick_change(rng, field, current):
    vals = DOM[field]
    return rng.choice(vals)


GROUP_OPEN, GROUP_CLOSE = '{[<(', '}]>)'
MATH_PAIRS = [['$', '$'], ['@', '@'], ['\\(', '\\)'], ['@@', '@@'], ['@@@', '@@@'], ['\\[', '\\]'], ['$$', '$$'],
              ['<', '>'], ['\\(', '$'], ['$$$', '$$$']]


def rich_list(rng, field):
    """Delimiter lists from a space of thousands (the ordinary domain has seven or eight per field)."""
    if field == 'latex_group_delimiters':
        n = rng.randint(1, 3)
        out = []
        for _ in range(n):
            o = rng.choice(GROUP_OPEN)
            out.append([o, rng.choice(GROUP_CLOSE) if rng.random() < 0.3 else GROUP_CLOSE[GROUP_OPEN.index(o)]])
        return out
    n = rng.randint(0, 3)
    return [list(x) for x in rng.sample(MATH_PAIRS, n)]


def _long_program(rng, tier, run):
    """Volume: chains tens to hundreds of derivations deep, dozens of siblings of one parent with
    pairwise different delimiter lists (and then the early ones again), longer inputs."""
    big = tier == 'thorough'
    shape = rng.choice(['chain', 'chain', 'cycle', 'fan', 'fan', 'tree'])
    n = rng.choice([45, 70, 110]) if not big else rng.choice([60, 120, 250, 400])
    f = {}
    if rng.random() < 0.5:
        f['latex_context'] = rng.choice(['default', 'small'])
    if rng.random() < 0.4:
        f['in_math_mode'] = True
        f['math_mode_delimiter'] = rng.choice(DOM['math_mode_delimiter'])
    for k in rng.sample(sorted(DOM), rng.randint(0, 2)):
        f.setdefault(k, rng.choice(DOM[k]))
    ops = [['root', f]]
    if rng.random() < 0.2:
        ops[0][1]['@subclass'] = True
        ops[0][1]['sim_flag'] = rng.randrange(1, 3)
    other_fields = [k for k in DOM if k not in MATH_CONE and k != 'latex_context']

    mathy = rng.random() < 0.5      # swarm: half of the histories mostly move in and out of math mode

    def step_change():
        y = rng.random()
        if mathy:
            if y < 0.25:
                # '$' is the delimiter whose closing is ambiguous ('$$' may be one token or two)
                return {'in_math_mode': True, 'math_mode_delimiter': '$' if rng.random() < 0.5 else
                        rng.choice(DOM['math_mode_delimiter'][1:])}
            if y < 0.45:
                return {'in_math_mode': False}
            if y < 0.65:
                return {'in_math_mode': True}
            y = (y - 0.65) / 0.35 * 0.54 + 0.46
        if y < 0.22:
            return {'in_math_mode': True, 'math_mode_delimiter': rng.choice(DOM['math_mode_delimiter'])}
        if y < 0.38:
            return {'in_math_mode': rng.random() < 0.5}
        if y < 0.46:
            return {'math_mode_delimiter': rng.choice(DOM['math_mode_delimiter'])}
        if y < 0.70:
            k = rng.choice(DELIM_LISTS)
            return {k: rich_list(rng, k) if rng.random() < 0.8 else rng.choice(DOM[k])}
        if y < 0.88:
            k = rng.choice(other_fields)
            return {k: rng.choice(DOM[k])}
        if y < 0.94:
            return {}
        return {'@repeat': rng.sample(sorted(DOM), rng.randint(1, 2))}

    def emit(parent, ch):
        z = rng.random()
        if z < 0.06:
            ops.append(['derive_delta', parent, 'enter_math', rng.choice(DOM['math_mode_delimiter']), {}])
        elif z < 0.12:
            ops.append(['derive_delta', parent, 'leave_math', None, {}])
        else:
            ops.append(['derive', parent, ch])
        if rng.random() < 0.2:
            ops[-1].append('@lazy')
    def motif():
        """Short sequences that matter together: enter math with a delimiter, leave, enter without one;
        set a field, change it, put it back; replace a list while something that depends on it stays."""
        d = rng.choice(DOM['math_mode_delimiter'][1:])
        y = rng.random()
        if y < 0.4:
            return [{'in_math_mode': True, 'math_mode_delimiter': d}, {'in_math_mode': False}, {'in_math_mode': True}]
        if y < 0.55:
            return [{'in_math_mode': True, 'math_mode_delimiter': d}, {'in_math_mode': False},
                    {'in_math_mode': True, 'math_mode_delimiter': rng.choice(DOM['math_mode_delimiter'])}]
        k = rng.choice(sorted(DOM))
        a, b = rng.choice(DOM[k]), rng.choice(DOM[k])
        if y < 0.8:
            return [{k: a}, {k: b}, {k: a}]
        k2 = rng.choice(DELIM_LISTS)
        return [{k2: rich_list(rng, k2)}, {'in_math_mode': True, 'math_mode_delimiter': d}, {k2: rng.choice(DOM[k2])}]
    if shape == 'cycle':
        # one short motif repeated all along the chain, with a little noise that shifts its alignment:
        # whatever depends on the *position* in the chain (a depth limit, a generation counter) meets
        # every phase of the motif
        m = motif()
        if rng.random() < 0.5:
            m = [{'in_math_mode': True, 'math_mode_delimiter': '$'}, {'in_math_mode': False}, {'in_math_mode': True}]
        while len(ops) < n:
            for ch in m:
                ops.append(['derive', -1, ch])
                if rng.random() < 0.1:
                    emit(-1, step_change())
    elif shape == 'chain':
        while len(ops) < n:
            if rng.random() < 0.12:
                for ch in motif():
                    ops.append(['derive', -1, ch])
            else:
                emit(-1, step_change())
    elif shape == 'fan':
        pre = rng.randint(0, 4)
        for _ in range(pre):
            emit(-1, step_change())
        hub = pre                 # index of the state everything is derived from
        made = []
        fields = [rng.choice(DELIM_LISTS)] if rng.random() < 0.4 else list(DELIM_LISTS)
        n_new = max(20, int(n * 0.7))
        for _ in range(n_new):
            k = rng.choice(fields)
            ch = {k: rich_list(rng, k)}
            if rng.random() < 0.15:
                ch['in_math_mode'] = rng.random() < 0.5
            made.append(ch)
            ops.append(['derive', hub, ch])
        for _ in range(n - n_new):
            # the early ones again (whatever was remembered about them may be gone by now)
            ops.append(['derive', hub, rng.choice(made[:max(3, len(made) // 3)])])
            if rng.random() < 0.3:
                ops.append(['derive', -1, step_change()])
    else:
        for _ in range(n):
            x = rng.random()
            parent = -1 if x < 0.5 else (0 if x < 0.6 else rng.randrange(1000))
            emit(parent, step_change())
    alpha = ALPHABET + ['@@@', '$$$']
    probes = [''.join(rng.choice(alpha) for _ in range(rng.randint(2, 8))) for _ in range(4)]
    probes += [''.join(rng.choice(alpha) for _ in range(rng.randint(20, 60))) for _ in range(2)]
    parse_probes = [''.join(rng.choice(PARSE_SNIPPETS) for _ in range(rng.randint(2, 5))) for _ in range(2)]
    parse_probes.append(''.join(rng.choice(PARSE_SNIPPETS) for _ in range(rng.randint(12, 25))))
    return {'batch': 'long-' + shape, 'light': True, 'max_live': n + 12, 'ops': ops, 'probes': probes,
            'parse_probes': parse_probes}


def generate(rng, tier, run):
    if run % 25 == 24:
        return _long_program(rng, tier, run)
    batch = 'plain' if run % 10 < 8 else 'rejected'
    if tier == 'thorough' and rng.random() < 0.3:
        n_ops = rng.randint(12, 30)
    else:
        n_ops = rng.randint(6, 16)
    ops = []
    # root: mostly near-default, sometimes fully random
    def root_fields():
        f = {}
        full = rng.random() < 0.3
        for k, vals in DOM.items():
            if full or rng.random() < 0.2:
                f[k] = rng.choice(vals)
        if rng.random() < 0.6:
            f['in_math_mode'] = True
            f['math_mode_delimiter'] = rng.choice(DOM['math_mode_delimiter'])
        if rng.random() < 0.6:
            f['latex_context'] = rng.choice(['default', 'small', 'default', 'small', 'grow'])
        return f
    ops.append(['root', root_fields()])
    if rng.random() < 0.3:
        ops[0][1]['@subclass'] = True
        ops[0][1]['sim_flag'] = rng.randrange(1, 3)
        if rng.random() < 0.6:
            # ordinary use of plain parsing states earlier in the same process
            ops.insert(0, ['base_use'])
    other_fields = [k for k in DOM if k not in MATH_CONE]
    while len(ops) < n_ops:
        x = rng.random()
        i = rng.randrange(100)
        if x < 0.05:
            ops.append(['root', root_fields()])
        elif x < 0.07:
            ops.append(['base_use'])
        elif x < 0.085:
            ops.append(['grow_ctx', rng.randrange(4)])
        elif x < 0.12:
            # two children of one parent that change the same field to different values,
            # then a grandchild of the first that leaves that field alone
            f = rng.choice(sorted(DOM))
            vals = list(DOM[f])
            rng.shuffle(vals)
            n0 = sum(1 for o in ops if o[0] in ('root', 'derive', 'derive_delta'))
            ops.append(['derive', i, {f: vals[0]}])
            ops.append(['derive', i, {f: vals[1 % len(vals)]}])
            g = rng.choice([k for k in sorted(DOM) if k != f])
            ops.append(['derive', n0, {g: rng.choice(DOM[g])}])
        elif x < 0.18:
            ops.append(['probe', i, ''.join(rng.choice(ALPHABET) for _ in range(rng.randint(1, 8)))])
        elif batch == 'rejected' and x < 0.32:
            kind = rng.choice(['unknown_field', 'empty_group_delimiters', 'bad_group_delimiters'])
            ops.append(['derive_bad', i, kind])
        else:
            y = rng.random()
            ch = {}
            if y < 0.5:
                k = rng.choice(MATH_CONE)
                ch[k] = rng.choice(DOM[k])
            elif y < 0.7:
                k = rng.choice(other_fields)
                ch[k] = rng.choice(DOM[k])
            elif y < 0.9:
                for k in rng.sample(sorted(DOM), rng.randint(2, 4)):
                    ch[k] = rng.choice(DOM[k])
            elif y < 0.95:
                ch = {}
            else:
                ch = {'@repeat': rng.sample(sorted(DOM), rng.randint(1, 3))}
            if rng.random() < 0.08:
                ch['sim_flag'] = rng.randrange(3)          # only meaningful for the subclass
            z = rng.random()
            if z < 0.12:
                # the same derivations as the parsers make them: through parsing-state deltas
                ops.append(['derive_delta', i, 'enter_math', rng.choice(DOM['math_mode_delimiter']), {}])
            elif z < 0.2:
                ops.append(['derive_delta', i, 'leave_math', None, {}])
            elif z < 0.26 and '@repeat' not in ch:
                ops.append(['derive_delta', i, 'set_attrs', None, ch])
            elif z < 0.3 and '@repeat' not in ch:
                ops.append(['derive_delta', i, 'chain', rng.choice(DOM['math_mode_delimiter']), ch])
            elif z < 0.34 and '@repeat' not in ch:
                # biased to the switches (what a delta that "only flips a flag" would set)
                if rng.random() < 0.6:
                    ch = {k: rng.choice(DOM[k]) for k in rng.sample([f for f in sorted(DOM) if f.startswith('enable_')],
                                                                    rng.randint(1, 2))}
                ops.append(['derive_delta', i, 'replace_chain', rng.randrange(100), ch])
            else:
                ops.append(['derive', i, ch])
            if rng.random() < 0.25:
                ops[-1].append('@lazy')      # the new state is not used for anything until later
    probes = [''.join(rng.choice(ALPHABET) for _ in range(rng.randint(2, 8))) for _ in range(6)]
    # seeded whole-parse probes: snippets whose reading depends on many different fields
    parse_probes = [''.join(rng.choice(PARSE_SNIPPETS) for _ in range(rng.randint(2, 5))) for _ in range(2)]
    return {'batch': batch, 'ops': ops, 'probes': probes, 'parse_probes': parse_probes}


# --------------------------------------------------------------------------
# executor helpers

_ctx_cache = {}


def contexts():
    if _ctx_cache:
        return _ctx_cache
    from pylatexenc import macrospec
    from pylatexenc.latexwalker import get_default_latex_context_db
    small = macrospec.LatexContextDb()
    from pylatexenc.latexnodes import (ParsingStateDeltaEnterMathMode, ParsingStateDeltaLeaveMathMode,
                                       LatexArgumentSpec)
    small.add_context_category('small', macros=[
        macrospec.MacroSpec('ab', '[{'), macrospec.MacroSpec('x', '{'),
        macrospec.MacroSpec('vb', ['v']), macrospec.MacroSpec('dl', ['d<>', 'r()', 't+']),
        macrospec.MacroSpec('any', ['AnyDelimited']),
        macrospec.MacroSpec('txt', arguments_spec_list=[
            LatexArgumentSpec('{', parsing_state_delta=ParsingStateDeltaLeaveMathMode())]),
        macrospec.MacroSpec('mth', arguments_spec_list=[
            LatexArgumentSpec('[', parsing_state_delta=ParsingStateDeltaEnterMathMode()), '{']),
    ], environments=[
        macrospec.EnvironmentSpec('e', ''),
        macrospec.EnvironmentSpec('em', '', body_parsing_state_delta=ParsingStateDeltaEnterMathMode()),
        macrospec.EnvironmentSpec('eo', '[{'),
    ], specials=[
        macrospec.SpecialsSpec('~'), macrospec.SpecialsSpec('``'), macrospec.SpecialsSpec('\n\n'),
        macrospec.SpecialsSpec('&'),
    ])
    small.freeze()
    # a database that is still being built while states that refer to it already exist (operation grow_ctx)
    grow = macrospec.LatexContextDb()
    grow.add_context_category('g', macros=[macrospec.MacroSpec('ab', '[{'), macrospec.MacroSpec('x', '{')],
                              specials=[macrospec.SpecialsSpec('~')])
    _ctx_cache.update({'none': None, 'default': get_default_latex_context_db(), 'small': small, 'grow': grow})
    return _ctx_cache


GROW_STEPS = [['``', "''"], ['&'], ['\n\n', '`'], ['!!', '<<']]


def grow_context(k):
    """Add one more category (specials with new first characters, a macro) to the unfinished database."""
    from pylatexenc import macrospec
    db = contexts()['grow']
    db.add_context_category(None, macros=[macrospec.MacroSpec('g%d' % k, '{')],
                            specials=[macrospec.SpecialsSpec(c) for c in GROW_STEPS[k % len(GROW_STEPS)]])


_cls_cache = {}


def sim_subclass():
    """A ParsingState subclass with one more field, the way _fields / set_fields invite."""
    if 'cls' not in _cls_cache:
        from pylatexenc.latexnodes import ParsingState

        class SimParsingState(ParsingState):
            _fields = tuple(ParsingState._fields) + ('sim_flag',)

            def set_fields(self, sim_flag=0, **kwargs):
                super(SimParsingState, self).set_fields(**kwargs)
                self.sim_flag = sim_flag
                # a normalisation of its own, like the base class has for math_mode_delimiter:
                # with flag 2, comments are off inside math mode
                if sim_flag == 2 and self.in_math_mode:
                    self.enable_comments = False
        _cls_cache['cls'] = SimParsingState
    return _cls_cache['cls']


def decode(field, v):
    if field == 'latex_context':
        return contexts()[v]
    if field in DELIM_LISTS and v is not None:
        return [tuple(p) for p in v]
    return v


def _plain_items(items):
    out = {}
    names = {id(v): k for k, v in contexts().items() if v is not None}
    for k, v in items:
        if k == 'latex_context':
            out[k] = 'none' if v is None else names.get(id(v), '<foreign context>')
        else:
            out[k] = D._plain(v)
    return out


def plain_fields(ps):
    """The state's fields, read attribute by attribute (every name in its class's
    _fields); get_fields() must report exactly these."""
    direct = _plain_items((f, getattr(ps, f, '<missing attribute>')) for f in type(ps)._fields)
    reported = _plain_items(ps.get_fields().items())
    if direct != reported:
        k = sorted(set(direct) ^ set(reported)) or [k for k in direct if direct[k] != reported.get(k)]
        raise Violation('get_fields-reports-every-field', op_index=CUR['opi'], field=k[0],
                        observed=reported.get(k[0], '<absent from get_fields()>'),
                        expected=direct.get(k[0], '<not an attribute>'))
    return direct


def predict_fields(parent_plain, changes):
    f = dict(parent_plain)
    f.update(changes)
    for k in DELIM_LISTS:
        if f.get(k) is None:
            f[k] = DEFAULTS[k]
    if not f['in_math_mode'] and f['math_mode_delimiter']:
        f['math_mode_delimiter'] = None
    return f


def token_dump(ps, s):
    from pylatexenc.latexnodes import LatexWalkerEndOfStream, LatexWalkerError, LatexTokenReader
    out = []
    ticks = 0
    for tolerant in (False, True):
        clock = [0, 6 * (len(s) + 4)]
        r = simparse.make_reader(s, clock, tolerant_parsing=tolerant)
        toks = []
        try:
            while True:
                toks.append(D.dump_token(r.next_token(ps)))
        except LatexWalkerEndOfStream as e:
            toks.append(['EOS', getattr(e, 'final_space', None)])
        except LatexWalkerError as e:
            toks.append(D.dump_error(e))
        except simparse.SimBudget:
            toks.append('BUDGET')
        except Exception as e:
            toks.append(['EXC', type(e).__name__, D.scrub(str(e))])
        ticks += clock[0]
        out.append(toks)
    peeks = []
    r = LatexTokenReader(s)
    for p in range(len(s) + 1):
        r.move_to_pos_chars(p)
        try:
            peeks.append(D.dump_token(r.peek_token(ps)))
        except LatexWalkerEndOfStream:
            peeks.append('EOS')
        except LatexWalkerError as e:
            peeks.append([type(e).__name__, getattr(e, 'pos', None)])
        except Exception as e:
            peeks.append(['EXC', type(e).__name__, D.scrub(str(e))])
    out.append(peeks)
    return out, ticks + len(s) + 1


SHARED_READER_PROBES = ['a$b%c', 'x{y}[z]', '\\ab !cd', '#e\n@f@', '$$g$$<h>', 'x%%i']


def shared_reader_dump(first, second, s):
    """One token reader asked at every position first with one state, then with another
    (what a parser does when it derives a state and looks at the same token again)."""
    from pylatexenc.latexnodes import LatexWalkerEndOfStream, LatexWalkerError, LatexTokenReader
    r = LatexTokenReader(s)
    out = []
    for p in range(len(s) + 1):
        for k, ps in enumerate((first, second)):
            r.move_to_pos_chars(p)
            try:
                t = D.dump_token(r.peek_token(ps))
            except LatexWalkerEndOfStream:
                t = 'EOS'
            except LatexWalkerError as e:
                t = [type(e).__name__, getattr(e, 'pos', None)]
            except Exception as e:
                t = ['EXC', type(e).__name__, D.scrub(str(e))]
            if k == 1:
                out.append(t)
    return out


def parse_dump(ps, s, tolerant):
    from pylatexenc.latexnodes import LatexWalkerError
    from pylatexenc.latexnodes.parsers import LatexGeneralNodesParser
    w = simparse.make_walker(s, default_parsing_state=ps, tolerant_parsing=tolerant)
    try:
        nodes, delta = w.parse_content(LatexGeneralNodesParser())
        res = D.Dumper().result(nodes, delta)
    except LatexWalkerError as e:
        res = D.dump_error(e)
    except simparse.SimBudget:
        res = dict(simparse.BUDGET)
    except RecursionError:
        res = ['EXC', 'RecursionError']
    except Exception as e:
        res = ['EXC', type(e).__name__, D.scrub(str(e))]
    return res, w.sim_clock[0]


PARSER_PROBES = [('math', 'x $y$'), ('math', '$a$ b'), ('math', '\\[c\\] d'), ('group', '{a}b'), ('group', 'a{b}'),
                 ('expression', '\\ab c'), ('optsq', '[o] x'), ('optsq', 'x [o]'), ('anygroup', '<a>(b)'), ('single', '%c\nx')]


def parser_dump(ps, name, s, tolerant):
    """One individual parser object run with the state (the parsers derive further states, and
    their error paths look at the state's delimiter lists)."""
    from pylatexenc.latexnodes import LatexWalkerError
    from pylatexenc.latexnodes import parsers as P
    parser = {'math': lambda: P.LatexMathParser(math_mode_delimiters=None),
              'group': lambda: P.LatexDelimitedGroupParser(delimiters=('{', '}')),
              'anygroup': lambda: P.LatexDelimitedGroupParser(delimiters=None, optional=True),
              'expression': lambda: P.LatexExpressionParser(),
              'optsq': lambda: P.LatexOptionalSquareBracketsParser(),
              'single': lambda: P.LatexSingleNodeParser()}[name]()
    w = simparse.make_walker(s, default_parsing_state=ps, tolerant_parsing=tolerant)
    try:
        nodes, delta = w.parse_content(parser, parsing_state=ps)
        res = D.Dumper().result(nodes, delta)
    except LatexWalkerError as e:
        res = D.dump_error(e)
    except simparse.SimBudget:
        res = dict(simparse.BUDGET)
    except RecursionError:
        res = ['EXC', 'RecursionError']
    except Exception as e:
        res = ['EXC', type(e).__name__, D.scrub(str(e))]
    return res, w.sim_clock[0]


_walker_cache = {}
CUR = {'opi': 0}


def derive_by_delta(ps, how, delim, changes):
    from pylatexenc.latexnodes import (ParsingStateDelta, ParsingStateDeltaEnterMathMode,
                                       ParsingStateDeltaLeaveMathMode, ParsingStateDeltaChained)
    from pylatexenc.latexwalker import LatexWalker
    if 'w' not in _walker_cache:
        _walker_cache['w'] = LatexWalker('x', latex_context=contexts()['small'], tolerant_parsing=False)
    w = _walker_cache['w']
    if how == 'enter_math':
        delta = ParsingStateDeltaEnterMathMode(math_mode_delimiter=delim)
    elif how == 'leave_math':
        delta = ParsingStateDeltaLeaveMathMode()
    elif how == 'set_attrs':
        delta = ParsingStateDelta(set_attributes=changes)
    elif how == 'replace_chain':
        # a chain whose first link hands over an existing state object (delim = that object) and
        # whose later links change it: the object handed over must stay as it is
        from pylatexenc.latexnodes import ParsingStateDeltaReplaceParsingState
        links = [ParsingStateDeltaReplaceParsingState(set_parsing_state=delim)]
        for k in sorted(changes):
            links.append(ParsingStateDelta(set_attributes={k: changes[k]}))
        delta = ParsingStateDeltaChained(links)
    else:
        delta = ParsingStateDeltaChained([ParsingStateDeltaEnterMathMode(math_mode_delimiter=delim), None,
                                          ParsingStateDelta(set_attributes=changes)])
    return delta.get_updated_parsing_state(ps, w)


class Violation(Exception):
    def __init__(self, invariant, **info):
        Exception.__init__(self, invariant)
        self.invariant = invariant
        self.info = info


def behaviour(ps, strings, parse_strings, stats):
    """Everything observable about a state on the probe set (derived side)."""
    out = {'tokens': {}, 'parse': {}}
    for s in strings:
        out['tokens'][s], t = token_dump(ps, s)
        stats.inc('ticks', t)
        stats.inc('token-stream-comparisons')
    if ps.latex_context is not None and ps.latex_context is not contexts().get('grow'):
        for s in parse_strings:
            for tolerant in (False, True):
                res, t = parse_dump(ps, s, tolerant)
                out['parse']['%s|%d' % (s, tolerant)] = res
                stats.inc('ticks', t)
                stats.inc('whole-parse-comparisons')
                if res == simparse.BUDGET:
                    stats.inc('probe:budget-exhausted')
        # individual parsers, two per probe set (chosen by the set: derived and fresh side agree)
        k0 = len(''.join(strings)) % len(PARSER_PROBES)
        for name, s in (PARSER_PROBES[k0], PARSER_PROBES[(k0 + 3) % len(PARSER_PROBES)]):
            res, t = parser_dump(ps, name, s, False)
            out['parse']['@%s|%s' % (name, s)] = res
            stats.inc('ticks', t)
            stats.inc('single-parser-comparisons')
    return out


def execute(program):
    from pylatexenc.latexnodes import ParsingState
    stats = core.Counters()
    trace = []
    live = []       # dicts: ps, depth, pattern, behaviour (stored), fields (plain)
    sigs = set()
    nontrivial = False
    violation = None
    base_strings = FIXED_PROBES + list(program['probes'])
    parse_strings = PARSE_PROBES + list(program.get('parse_probes', []))
    light = bool(program.get('light'))
    max_live = int(program.get('max_live') or MAX_LIVE)

    def probe_sets(opi):
        """Which strings a new state is compared on: all of them, or (light mode, for histories of
        hundreds of states) a rotating slice -- every string still meets every few states."""
        if not light:
            return base_strings, parse_strings
        return base_strings[opi % 3::3], parse_strings[opi % 7::7]

    def compare_with_fresh(ps, opi, idx, strings, parse_strings=parse_strings):
        fields = ps.get_fields()
        try:
            fresh = type(ps)(**fields)
        except Exception as e:
            raise Violation('fresh-constructor-fails', op_index=opi, state=idx,
                            observed=repr(e), expected='constructor accepts get_fields() of a derived state')
        b_d = behaviour(ps, strings, parse_strings, stats)
        b_f = behaviour(fresh, strings, parse_strings, stats)
        for s in strings:
            if b_d['tokens'][s] != b_f['tokens'][s]:
                which = ['strict-tokens', 'tolerant-tokens', 'peek-at-every-position']
                k = [i for i in range(3) if b_d['tokens'][s][i] != b_f['tokens'][s][i]][0]
                raise Violation('derived-tokenizes-like-fresh', op_index=opi, state=idx, input=s,
                                stream=which[k], fields=plain_fields(ps),
                                observed=b_d['tokens'][s][k], expected=b_f['tokens'][s][k])
        for key in b_d['parse']:
            if b_d['parse'][key] != b_f['parse'][key]:
                raise Violation('derived-parses-like-fresh', op_index=opi, state=idx, input=key,
                                fields=plain_fields(ps),
                                observed=b_d['parse'][key], expected=b_f['parse'][key])
        return b_d

    def check_others_unchanged(opi, before_fields, skip=None, around=None):
        todo = None
        if light and around is not None and len(live) > 24:
            # the chain of ancestors, the most recent states and a rotating sample of the rest
            todo = set(range(len(live) - 10, len(live)))
            a = around
            while a is not None:
                todo.add(a)
                a = live[a].get('parent')
            todo.update(range(opi % 7, len(live), 7))
        for j, st in enumerate(live):
            if j == skip or j >= len(before_fields) or (todo is not None and j not in todo):
                continue
            now = plain_fields(st['ps'])
            if now != before_fields[j]:
                k = [k for k in now if now[k] != before_fields[j].get(k)][0]
                raise Violation('sub_context-never-alters-states', op_index=opi, state=j, field=k,
                                observed=now[k], expected=before_fields[j][k])

    def recheck_behaviour(opi, j, part=None):
        """The state still behaves as when it was created.  part = (k, n): only every n-th probe
        string starting at k (a corrupted shared table shows on many strings at once)."""
        st = live[j]
        if st['behaviour'] is None:
            if st.get('regrown') and st['depth'] == 0:
                # a directly constructed state on a database that grew afterwards: not a derived state,
                # nothing to compare it with; record how it behaves now
                st['behaviour'] = behaviour(st['ps'], st['strings'], st['pstrings'], stats)
                return
            # first use of a state that was left unused: full comparison with a fresh one
            st['behaviour'] = compare_with_fresh(st['ps'], opi, j, st['strings'], st['pstrings'])
            return
        strings = st['strings']
        pstrings = st['pstrings']
        if part is not None:
            k, n = part
            strings = strings[k % n::n]
            pstrings = pstrings[k % n::n]
        b = behaviour(st['ps'], strings, pstrings, stats)
        stored = st['behaviour']
        same = all(b['tokens'][x] == stored['tokens'].get(x) for x in b['tokens']) and \
            all(b['parse'][x] == stored['parse'].get(x) for x in b['parse']
                if not x.startswith('@') or x in stored['parse'])      # single-parser probes vary with the probe set
        if not same:
            raise Violation('sub_context-never-alters-states', op_index=opi, state=j,
                            field='<behaviour>', observed='state tokenizes/parses differently than '
                            'when it was created', expected='unchanged behaviour')

    try:
        for opi, op in enumerate(program['ops']):
            kind = op[0]
            CUR['opi'] = opi
            if light and len(live) > 24 and kind in ('derive', 'derive_delta'):
                # hundreds of live states: read the fields of those that will be looked at again
                # (check_others_unchanged uses the same selection); the others keep their last reading
                jj = op[1] % len(live)
                sel = set(range(len(live) - 10, len(live))) | set(range(opi % 7, len(live), 7))
                a = jj
                while a is not None:
                    sel.add(a)
                    a = live[a].get('parent')
                before = [plain_fields(st['ps']) if i in sel else st.get('fields_seen') for i, st in enumerate(live)]
            else:
                before = [plain_fields(st['ps']) for st in live]
            for i, st in enumerate(live):
                if before[i] is not None:
                    st['fields_seen'] = before[i]
            outcome = 'ok'
            if kind == 'base_use':
                # somebody else in the process uses plain ParsingState objects
                q = ParsingState(in_math_mode=True, math_mode_delimiter='$').sub_context(enable_comments=False)
                q.get_fields()
                token_dump(q, 'a$b%c')
                stats.inc('op:base_use')
            elif kind == 'grow_ctx':
                try:
                    grow_context(op[1])
                    stats.inc('op:grow_ctx')
                except RuntimeError:
                    outcome = 'skipped'          # somebody froze it
                else:
                    g = contexts()['grow']
                    for st in live:
                        if st['ps'].latex_context is g:
                            # what the state recognises has legitimately changed; a derived state is
                            # compared with a fresh one again at its next use, a root is just recorded anew
                            st['behaviour'] = None
                            st['regrown'] = True
                            stats.inc('probe:state-on-a-database-that-grew')
            elif kind == 'root':
                if len(live) >= max_live:
                    outcome = 'skipped'
                else:
                    fields = {k: decode(k, v) for k, v in op[1].items() if not k.startswith('@')}
                    if op[1].get('@subclass'):
                        ps = sim_subclass()(**fields)
                        stats.inc('probe:subclass-root')
                    else:
                        ps = ParsingState(**fields)
                    b = compare_with_fresh(ps, opi, len(live), base_strings)
                    live.append({'ps': ps, 'depth': 0, 'pattern': [], 'behaviour': b,
                                 'strings': base_strings, 'pstrings': parse_strings, 'parent': None})
                    stats.inc('op:root')
            elif not live:
                outcome = 'skipped'
            elif kind == 'probe':
                j = op[1] % len(live)
                compare_with_fresh(live[j]['ps'], opi, j, [op[2]])
                stats.inc('op:probe')
            elif kind in ('derive', 'derive_delta'):
                j = op[1] % len(live)
                start_ps = live[j]['ps']
                if kind == 'derive_delta' and op[2] == 'replace_chain':
                    # the chain first swaps in an existing state object X, then changes it: X plays
                    # the parent's part in every expectation below
                    j = op[3] % len(live)
                    stats.inc('probe:chain-starting-from-an-existing-state-object')
                parent = live[j]
                if len(live) >= max_live:
                    outcome = 'skipped'
                else:
                    ch = dict(op[2] if kind == 'derive' else op[4])
                    if '@repeat' in ch:
                        ch = {k: before[j][k] for k in ch['@repeat']}
                        stats.inc('probe:derive-repeats-current-values')
                    if 'sim_flag' not in before[j]:
                        ch.pop('sim_flag', None)
                    steps = [ch]
                    if kind == 'derive_delta':
                        how = op[2]
                        enter = {'in_math_mode': True, 'math_mode_delimiter': op[3]}
                        leave = {'in_math_mode': False, 'math_mode_delimiter': None}
                        steps = {'enter_math': [enter], 'leave_math': [leave], 'set_attrs': [ch],
                                 'chain': [enter, ch],
                                 'replace_chain': [{k: ch[k]} for k in sorted(ch)] or [{}]}[how]
                        stats.inc('op:derive_delta-' + how)
                    changes = {k: decode(k, v) for k, v in ch.items()}
                    want_model = before[j]
                    for st_ch in steps:
                        want_model = predict_fields(want_model, st_ch)
                    # what "a state constructed directly with the same field values" has: ask the
                    # constructor (the property's own reference), not a model of its normalisations
                    want = want_model
                    try:
                        f = parent['ps'].get_fields()
                        for st_ch in steps:
                            f.update({k: decode(k, v) for k, v in st_ch.items()})
                            f = type(parent['ps'])(**f).get_fields()
                        want = _plain_items(f.items())
                        if want != want_model:
                            stats.inc('constructor-normalises-differently-from-the-documented-model')
                    except Exception:
                        pass        # the constructor refuses these values: handled below
                    merged = {}
                    for st_ch in steps:
                        merged.update(st_ch)
                    effective = sorted(k for k in merged if D._plain(merged[k]) != before[j][k])
                    try:
                        if kind == 'derive':
                            child = parent['ps'].sub_context(**changes)
                        else:
                            child = derive_by_delta(start_ps, op[2], parent['ps'] if op[2] == 'replace_chain' else op[3],
                                                    changes)
                            if child is parent['ps']:
                                # "might be the same object if no changes need to be applied"
                                if plain_fields(child) != want:
                                    raise Violation('derived-fields-as-requested', op_index=opi, state=j,
                                                    field='<delta returned the state itself>',
                                                    observed=plain_fields(child), expected=want)
                                stats.inc('outcome:delta-returned-same-state')
                                trace.append([kind, 'same-state'])
                                continue
                    except Violation:
                        raise
                    except Exception as e:
                        # legitimate only if the constructor fails on the same field values
                        f = parent['ps'].get_fields()
                        f.update(changes)
                        try:
                            type(parent['ps'])(**f)
                        except Exception:
                            stats.inc('outcome:constructor-refuses-too')
                            trace.append([kind, 'refused-like-constructor'])
                            continue
                        raise Violation('derivation-refused', op_index=opi, state=j,
                                        observed=repr(e), expected='a derived state')
                    if kind == 'derive':
                        stats.inc('op:derive')
                    if type(child) is not type(parent['ps']):
                        raise Violation('derived-fields-as-requested', op_index=opi, state=j, field='<class>',
                                        observed=type(child).__name__, expected=type(parent['ps']).__name__)
                    got = plain_fields(child)
                    if got != want:
                        k = [k for k in want if got.get(k) != want[k]][0]
                        raise Violation('derived-fields-as-requested', op_index=opi, state=j, field=k,
                                        observed=got.get(k), expected=want[k])
                    check_others_unchanged(opi, before, around=j)
                    lazy = op[-1] == '@lazy'
                    my_strings, my_pstrings = probe_sets(opi)
                    if lazy:
                        # not tokenized or parsed with before something is derived from it
                        # (tables that are filled in on first use are still empty then)
                        b = None
                        stats.inc('probe:state-left-unused-until-later')
                    else:
                        b = compare_with_fresh(child, opi, len(live), my_strings, my_pstrings)
                    # one token reader, asked with the parent and then with the child at the same place
                    if not lazy:
                        fresh_child = type(child)(**child.get_fields())
                        srp = SHARED_READER_PROBES + list(program['probes'][:2])
                        for sp in (srp[opi % 4::4] if light else srp):
                            a = shared_reader_dump(parent['ps'], child, sp)
                            bb = shared_reader_dump(parent['ps'], fresh_child, sp)
                            stats.inc('shared-reader-comparisons')
                            if a != bb:
                                raise Violation('derived-tokenizes-like-fresh', op_index=opi, state=len(live),
                                                input=sp, stream='one-reader-parent-then-child',
                                                fields=plain_fields(child), observed=a, expected=bb)
                    # parent must still behave as when it was created
                    recheck_behaviour(opi, j, (opi, 3))
                    # ... and so must the state derived from the same parent before this one
                    sib = parent.get('last_child')
                    if sib is not None and sib < len(live):
                        recheck_behaviour(opi, sib, (opi + 1, 3))
                        stats.inc('probe:sibling-rechecked')
                    parent['last_child'] = len(live)
                    step = [int('latex_group_delimiters' in effective),
                            int(any(k in effective for k in MATH_CONE[2:])),
                            int(any(k in effective for k in MATH_CONE[:2]))]
                    cone_changed = [k for k in MATH_CONE if k in effective]
                    if step[1] and not step[2]:
                        stats.inc('probe:math-lists-changed-mathmode-info-inherited')
                        if before[j]['in_math_mode']:
                            stats.inc('probe:math-lists-changed-while-in-math-mode')
                            nontrivial = True
                    if parent['depth'] >= 2 and step[2] and not step[1] and \
                       any(p[1] for p in parent['pattern']):
                        # math-mode fields changed on top of tables inherited through >= 2 levels
                        # that were themselves replaced somewhere up the chain
                        stats.inc('probe:mathmode-changed-over-inherited-replaced-tables')
                        nontrivial = True
                    if not effective:
                        stats.inc('probe:derive-without-effective-change')
                    pattern = parent['pattern'] + [step]
                    live.append({'ps': child, 'depth': parent['depth'] + 1, 'pattern': pattern[-12:] if light else pattern,
                                 'behaviour': b, 'strings': my_strings, 'pstrings': my_pstrings, 'parent': j})
                    dd = parent['depth'] + 1
                    stats.inc('probe:chain-depth-%s' % (min(dd, 8) if dd < 16 else ('16+' if dd < 33 else ('33+' if dd < 100 else '100+'))))
                    parent['n_children'] = parent.get('n_children', 0) + 1
                    if parent['n_children'] in (17, 33, 65):
                        stats.inc('probe:siblings-of-one-parent-%d' % parent['n_children'])
                    sigs.add(core.short_digest([got, pattern]))
            elif kind == 'derive_bad':
                j = op[1] % len(live)
                parent = live[j]
                bad = {'unknown_field': {'bogus_field': 1},
                       'empty_group_delimiters': {'latex_group_delimiters': []},
                       'bad_group_delimiters': {'latex_group_delimiters': [('{',)]}}[op[2]]
                stats.inc('op:derive_bad')
                stats.inc('fault-armed:rejected-' + op[2])
                try:
                    parent['ps'].sub_context(**bad)
                    raised = None
                except Exception as e:
                    raised = e
                if op[2] == 'unknown_field':
                    fresh_raises = True
                else:
                    f = parent['ps'].get_fields()
                    f.update(bad)
                    try:
                        type(parent['ps'])(**f)
                        fresh_raises = False
                    except Exception:
                        fresh_raises = True
                if fresh_raises and raised is None:
                    raise Violation('rejected-derivation-raises', op_index=opi, state=j,
                                    observed='sub_context accepted %r' % (bad,),
                                    expected='an exception (the constructor refuses these values)')
                if raised is not None:
                    stats.inc('fault-fired:rejected-' + op[2])
                    outcome = 'rejected'
                    check_others_unchanged(opi, before)
                    recheck_behaviour(opi, j, (opi, 3))
                else:
                    outcome = 'unspecified-accept'
            else:
                raise core.HarnessError('unknown op %r' % (op,))
            stats.inc('outcome:' + outcome)
            stats.inc('checked-operations')
            trace.append([kind, outcome, core.short_digest([plain_fields(st['ps']) for st in live])])
        # final pass: every live state still behaves as when it was created
        for j in range(len(live)):
            recheck_behaviour(len(program['ops']) - 1, j, (j, 2) if not light or len(live[j]['strings']) < 12 else (j, 6))
            stats.inc('final-behaviour-rechecks')
    except Violation as v:
        oi = v.info.get('op_index', 0)
        violation = dict(v.info, invariant=v.invariant, op=program['ops'][oi])
        trace.append(['violation', v.invariant])

    return {'violation': violation, 'trace': trace, 'stats': stats,
            'sets': {'states': sorted(sigs)}, 'nontrivial': nontrivial}


def run_program(program, env):
    return env.pristine(execute, program)


# --------------------------------------------------------------------------

def shrink_candidates(program):
    ops = program['ops']
    if program['probes']:
        for i in range(len(program['probes'])):
            yield dict(program, probes=program['probes'][:i] + program['probes'][i + 1:])
    pp = program.get('parse_probes') or []
    for i in range(len(pp)):
        yield dict(program, parse_probes=pp[:i] + pp[i + 1:])
    for i, op in enumerate(ops):
        def repl(new):
            return dict(program, ops=ops[:i] + [new] + ops[i + 1:])
        if op[0] == 'root':
            for k in sorted(op[1]):
                f = dict(op[1])
                del f[k]
                yield repl(['root', f])
        if op[0] == 'derive':
            for k in sorted(op[2]):
                f = dict(op[2])
                del f[k]
                yield repl(['derive', op[1], f])
            if op[1] > 9:
                for j in range(10):
                    yield repl(['derive', j, op[2]])
        if op[0] in ('derive', 'derive_delta') and op[-1] == '@lazy':
            yield repl(op[:-1])
        if op[0] == 'derive_delta' and op[2] == 'replace_chain':
            yield repl(['derive', op[3], op[4]])
        if op[0] == 'derive_delta':
            eq = {'enter_math': {'in_math_mode': True, 'math_mode_delimiter': op[3]},
                  'leave_math': {'in_math_mode': False, 'math_mode_delimiter': None},
                  'set_attrs': op[4]}.get(op[2])
            if eq is not None:
                yield repl(['derive', op[1], eq])
            if op[1] > 9:
                for j in range(10):
                    yield repl(['derive_delta', j] + op[2:])
        if op[0] == 'root' and op[1].get('@subclass'):
            f = dict(op[1])
            del f['@subclass']
            yield repl(['root', f])
        if op[0] == 'probe' and len(op[2]) > 1:
            for k in range(len(op[2])):
                yield repl(['probe', op[1], op[2][:k] + op[2][k + 1:]])


def finding_key(program, violation):
    return '%s|%s' % (violation['invariant'],
                      ','.join(sorted(set(k for o in program['ops'] if o[0] in ('derive', 'derive_delta')
                                          for k in (o[2] if o[0] == 'derive' else o[4])))))


RULE = ("programs are seeded histories (6-16 operations, up to 30 in the thorough tier) of ParsingState "
        "construction, sub_context() derivations changing seeded subsets of the fields (biased to one member of "
        "the math dependency cone at a time), refused derivations and extra probe strings; every state is "
        "compared with ParsingState(**get_fields()) on token streams (strict, tolerant, peek at every position) "
        "and whole parses; a program is non-trivial when a derivation changed the inline/display math delimiter "
        "lists of a state in math mode while inheriting the math-mode info, or changed the math-mode fields at "
        "chain depth >= 3 on top of inherited delimiter tables that were replaced further up the chain; distinct = distinct program digest; 'states' = distinct "
        "(field values, per-step inheritance pattern) pairs")
COMPONENTS = {
    'real': ['pylatexenc.latexnodes.ParsingState (constructor, sub_context, get_fields, cached tables)',
             'pylatexenc.latexnodes.LatexTokenReader', 'pylatexenc.latexwalker.LatexWalker + LatexGeneralNodesParser '
             'and all parsers it invokes (whole-parse comparison)', 'pylatexenc.macrospec.LatexContextDb / default walker context'],
    'stub': ['token reader subclass that only counts ticks (deterministic step budget)'],
}
TIERS = {
    'quick': {'runs': 2600, 'wall_cap': 300},
    'thorough': {'runs': 45000, 'wall_cap': 3600},
}
EXPECTED_PROBES = ['math-lists-changed-while-in-math-mode', 'derive-without-effective-change',
                   'derive-repeats-current-values', 'chain-depth-4', 'chain-depth-33+', 'siblings-of-one-parent-17']

STATES_MEASURE = ('distinct (field values, per-step inheritance pattern of the three cached table groups) pairs, derived from the program, not from private attributes')

# wall-clock guard per forked child (a program normally takes milliseconds to a second); only ever
# turns a hang into 'timeout', which is confirmed twice before it is reported
CHILD_WALL_S = 45

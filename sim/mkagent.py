#!/venv/bin/python -B
"""Prepare a scratch worktree for a sub-agent that writes breaking (or property-keeping) changes.

  mkagent.py <tag> <PROP> [theme-file] [--refactor]    -> creates /tmp/wt_<tag>, writes _seed/TASK.md (or _refactor/TASK.md) there

The task text is seeded/agent_prompt_template.txt with the property record and the worktree path filled
in (plus an optional theme paragraph); nothing from /verif other than that text reaches the agent."""
import json
import os
import subprocess
import sys

VERIF = os.path.dirname(os.path.dirname(os.path.abspath(__file__)))


def main(argv):
    refactor = '--refactor' in argv
    argv = [a for a in argv if a != '--refactor']
    tag, prop = argv[0], argv[1]
    theme = open(argv[2]).read().strip() if len(argv) > 2 else ''
    wt = '/tmp/wt_' + tag
    subprocess.run(['git', '-C', '/repo', 'worktree', 'remove', '--force', wt], stderr=subprocess.DEVNULL)
    subprocess.check_call(['git', '-C', '/repo', 'worktree', 'add', '-q', '--detach', wt, 'HEAD'])
    rec = None
    for line in open(os.path.join(VERIF, 'properties.jsonl')):
        p = json.loads(line)
        if p['id'] == prop:
            rec = p
    tpl = open(os.path.join(VERIF, 'refactors' if refactor else 'seeded', 'agent_prompt_template.txt')).read()
    text = tpl.replace('@WT@', wt).replace('@PROP@', json.dumps(rec, indent=1))
    if theme:
        text += '\n\nADDITIONAL GUIDANCE FOR THIS ASSIGNMENT:\n' + theme + '\n'
    sub = '_refactor' if refactor else '_seed'
    os.makedirs(os.path.join(wt, sub), exist_ok=True)
    with open(os.path.join(wt, sub, 'TASK.md'), 'w') as f:
        f.write(text)
    print(wt)


if __name__ == '__main__':
    main(sys.argv[1:])

#!/venv/bin/python -B
# -*- coding: utf-8 -*-
"""CLI of the simulation checks.

  check.py <ID> --tier quick|thorough      seeded search (exit 0 / 1 / 2)
  check.py <ID> --replay FILE              re-execute a replay file in a fresh process
  check.py selftest determinism|mutants|simfs ...

Exit codes: 0 = every explored run satisfied every invariant; 1 = violation
(one 'VIOLATION property=<id> replay=<path>' line each); 2 = harness error
(never together with a VIOLATION line)."""
from __future__ import print_function

import argparse
import glob
import json
import os
import sys
import time

sys.path.insert(0, os.path.dirname(os.path.abspath(__file__)))

import core  # noqa: E402

MAX_MINIMISED = 3          # distinct violation classes minimised per invocation


def out(*a):
    print(*a)
    sys.stdout.flush()


def replay_path(prop, seed, run, suffix=''):
    d = os.path.join(core.VERIF_DIR, 'replays')
    os.makedirs(d, exist_ok=True)
    return os.path.join(d, '%s-%d-%d%s.json' % (prop, seed, run, suffix))


def write_replay(path, prop, seed, run, hashclass, program, violation, minimised_from, digest):
    v = dict(violation)
    for k in ('program', 'run', 'hashclass'):
        v.pop(k, None)
    rec = {'property': prop, 'seed': seed, 'run': run, 'hashseed_class': hashclass,
           'invariant': v.get('invariant'), 'program': program, 'violation': v,
           'observed': v.get('observed'), 'expected': v.get('expected'),
           'trace_digest': 'sha256:' + digest, 'minimised_from': minimised_from,
           'replay_cmd': '/venv/bin/python -B sim/check.py %s --replay %s' % (prop, path)}
    with open(path, 'w') as f:
        json.dump(rec, f, indent=1, sort_keys=True)
        f.write('\n')


def run_replay_file(prop, path, runners=None):
    """-> (record, violation or None, digest).  Fresh worker process per replay, unless a pool
    of runners (one pristine worker per hash-seed class; every program still runs in its own
    fork of it) is given."""
    rec = json.load(open(path))
    if rec.get('property') != prop:
        raise core.HarnessError("%s is a replay file of %r" % (path, rec.get('property')))
    hc = int(rec.get('hashseed_class', 0)) % core.HASH_CLASSES
    if runners is not None:
        if hc not in runners:
            runners[hc] = core.ProgramRunner(prop, hc)
        rep = runners[hc].run(rec['program'], timeout_is_violation=True)
        if rep.get('digest') == 'timeout':
            # confirm in a fresh worker: only a program that never comes back twice counts
            runners.pop(hc).close()
            again = core.ProgramRunner(prop, hc)
            try:
                rep = again.run(rec['program'], timeout_is_violation=True)
            finally:
                again.close()
        return rec, rep.get('violation'), rep.get('digest')
    runner = core.ProgramRunner(prop, hc)
    try:
        rep = runner.run(rec['program'], timeout_is_violation=True)
    finally:
        runner.close()
    return rec, rep.get('violation'), rep.get('digest')


def cmd_replay(prop, path):
    rec, v, dg = run_replay_file(prop, path)
    if v:
        out("replayed %s: invariant=%s (recorded: %s) trace_digest=sha256:%s" %
            (path, v['invariant'], rec.get('invariant'), dg))
        out("  op_index=%r op=%s" % (v.get('op_index'), json.dumps(v.get('op'))))
        out("  observed=%s" % json.dumps(v.get('observed')))
        out("  expected=%s" % json.dumps(v.get('expected')))
        out("VIOLATION property=%s replay=%s" % (prop, path))
        return core.EXIT_VIOLATION
    out("replayed %s: no violation (recorded invariant: %s)" % (path, rec.get('invariant')))
    return core.EXIT_OK


def report_violation(prop, seed, v, findings, minimise=True):
    """Minimise, write the replay file, confirm it replays. -> (kind, line)."""
    mod = core.get_module(prop)
    program, run, hc = v['program'], v['run'], v['hashclass']
    n_ops = len(program['ops'])
    best, execs = (None, 0)
    if minimise:
        best, execs = core.minimise(prop, program, v, hc)
        if best is None:
            return ('harness', "HARNESS-ERROR nondeterministic: violation %s of run %d did not "
                    "reproduce on re-execution" % (v['invariant'], run))
    if best is None:
        best = {'program': program, 'violation': v}
    path = replay_path(prop, seed, run)
    write_replay(path, prop, seed, run, hc, best['program'], best['violation'],
                 {'ops': n_ops, 'executions': execs}, '')
    # replay in a fresh process; must fail with the same invariant
    rec, v2, dg = run_replay_file(prop, path)
    if not v2 or v2['invariant'] != best['violation']['invariant']:
        return ('harness', "HARNESS-ERROR nondeterministic: replay file %s does not reproduce" % path)
    write_replay(path, prop, seed, run, hc, best['program'], v2,
                 {'ops': n_ops, 'executions': execs}, dg)
    key = mod.finding_key(best['program'], v2)
    f = core.match_finding(findings, prop, key)
    if f:
        return ('known', "KNOWN-FINDING: property=%s %s" % (prop, f.get('what', key)))
    out("violation: property=%s invariant=%s run=%d seed=%d ops=%d (minimised from %d, %d executions)" %
        (prop, v2['invariant'], run, seed, len(best['program']['ops']), n_ops, execs))
    out("  op=%s" % json.dumps(v2.get('op'))[:600])
    out("  observed=%s" % json.dumps(v2.get('observed'))[:600])
    out("  expected=%s" % json.dumps(v2.get('expected'))[:600])
    return ('violation', "VIOLATION property=%s replay=%s" % (prop, path))


def cmd_check(prop, tier, n_runs=None, jobs=None):
    mod = core.get_module(prop)
    seed = int(os.environ.get('VERIF_SEED', '0') or 0)
    cfg = mod.TIERS[tier]
    n_runs = n_runs or cfg['runs']
    t0 = time.time()
    findings = core.load_findings()
    lines, harness = [], []
    n_viol = 0

    # 0. property-specific preflight (e.g. stub fidelity); a failure is a harness error
    pre = getattr(mod, 'preflight', None)
    pre_info = None
    if pre:
        try:
            pre_info = pre(tier)
        except core.HarnessError as e:
            out("HARNESS-ERROR preflight: %s" % e)
            return core.EXIT_HARNESS

    # 1. regression programs of repaired defects, replayed first
    regress = sorted(glob.glob(os.path.join(core.VERIF_DIR, 'regress', prop, '*.json')))
    regress_failed = 0
    runners = {}
    for path in regress:
        try:
            rec, v, dg = run_replay_file(prop, path, runners)
        except core.HarnessError as e:
            harness.append("HARNESS-ERROR regress %s: %s" % (path, e))
            for r in runners.values():
                r.close()
            runners = {}
            continue
        if v:
            key = mod.finding_key(rec['program'], v)
            f = core.match_finding(findings, prop, key)
            if f:
                lines.append("KNOWN-FINDING: property=%s %s" % (prop, f.get('what', key)))
            else:
                regress_failed += 1
                n_viol += 1
                out("violation (regression program): invariant=%s observed=%s expected=%s" %
                    (v['invariant'], json.dumps(v.get('observed')), json.dumps(v.get('expected'))))
                lines.append("VIOLATION property=%s replay=%s" % (prop, path))

    for r in runners.values():
        r.close()

    # 2. seeded search
    batch = core.Batch(prop, seed, tier, n_runs, cfg['wall_cap'], jobs=jobs).run()
    for e in batch.harness_errors[:10]:
        harness.append("HARNESS-ERROR %s" % (e.strip().splitlines()[-1] if e.strip() else e))
        if os.environ.get('VERIF_DEBUG'):
            sys.stderr.write(e + '\n')

    # 2b. programs whose child never came back: re-execute twice in fresh workers; if it never
    #     finishes there either, the code under test does not terminate on it -- a violation
    confirmed_timeouts = []
    for t in sorted(batch.timeouts, key=lambda t: t['run'])[:2]:
        ok = 0
        for _ in range(2):
            r = core.ProgramRunner(prop, t['hashclass'])
            try:
                rep = r.run(t['program'], timeout_is_violation=True)
            except core.HarnessError:
                rep = {}
            finally:
                r.close()
            if rep.get('digest') == 'timeout':
                ok += 1
        if ok == 2:
            v = dict(rep['violation'], run=t['run'], hashclass=t['hashclass'], program=t['program'])
            confirmed_timeouts.append(v)
            break

    # 3. determinism sample: first 32 runs again, in fresh workers
    det = {'runs_reexecuted': 0, 'mismatches': 0}
    if batch.completed and not os.environ.get('VERIF_NO_DETCHECK'):
        sample = sorted(r for r in core.DET_SAMPLE if r < n_runs)
        again = core.Batch(prop, seed, tier, len(sample), cfg['wall_cap'], jobs=core.HASH_CLASSES,
                           chunk=4, keep_digests=True, run_list=sample).run()
        for r, d in again.run_digests.items():
            if r in batch.run_digests:
                det['runs_reexecuted'] += 1
                if batch.run_digests[r] != d:
                    det['mismatches'] += 1
        if det['mismatches']:
            harness.append("HARNESS-ERROR nondeterministic: %d of %d re-executed runs differ" %
                           (det['mismatches'], det['runs_reexecuted']))

    # 4. violations: minimise one per class (lowest run), replay files for them
    seen_classes = {}
    for v in batch.violations:
        n_viol += 1
        seen_classes.setdefault(v['invariant'], []).append(v)
    for v in confirmed_timeouts:
        n_viol += 1
        path = replay_path(prop, seed, v['run'], '-timeout')
        write_replay(path, prop, seed, v['run'], v['hashclass'], v['program'], v,
                     {'ops': len(v['program']['ops']), 'executions': 3, 'note': 'not minimised (every attempt '
                      'costs a full wall guard)'}, 'timeout')
        out("violation: property=%s invariant=operation-terminates run=%d seed=%d: the program never finished, "
            "three times out of three, in fresh workers" % (prop, v['run'], seed))
        lines.append("VIOLATION property=%s replay=%s" % (prop, path))
    known_only = 0
    for i, (inv, vs) in enumerate(sorted(seen_classes.items(), key=lambda kv: kv[1][0]['run'])):
        kind, line = report_violation(prop, seed, vs[0], findings, minimise=(i < MAX_MINIMISED))
        if kind == 'harness':
            harness.append(line)
        else:
            lines.append(line)
            if kind == 'known':
                known_only += len(vs)
        if len(vs) > 1:
            out("  (%d further runs violated %s; first runs: %r)" %
                (len(vs) - 1, inv, [x['run'] for x in vs[1:6]]))

    wall = time.time() - t0
    # 5. evidence
    st = batch.stats
    nontriv = len(batch.sets.get('nontrivial_programs', ()))
    coverage = {
        'evaluations': batch.completed,
        'distinct_nontrivial': nontriv,
        'rule': mod.RULE,
        'samples': batch.samples[:6],
        'planned_runs': n_runs,
        'cut_short_by_wall_cap': batch.cut_short,
        'runs_per_hour': int(batch.completed / batch.wall_s * 3600) if batch.wall_s else 0,
        'prng_streams': batch.completed,       # one PRNG stream "<prop>:<VERIF_SEED>:<run>" per run
        'states_measure': getattr(mod, 'STATES_MEASURE', "see 'rule'"),
        'states': len(batch.sets.get('states', ())),
        'search_wall_s': round(batch.wall_s, 2),
        'workers': batch.jobs,
        'hash_seed_classes': list(range(core.HASH_CLASSES)),
        'batches': {k[6:]: v for k, v in sorted(st.items()) if k.startswith('batch:')},
        'operations_by_kind': {k[3:]: v for k, v in sorted(st.items()) if k.startswith('op:')},
        'faults_armed': {k[12:]: v for k, v in sorted(st.items()) if k.startswith('fault-armed:')},
        'faults_fired': {k[12:]: v for k, v in sorted(st.items()) if k.startswith('fault-fired:')},
        'reach_probes': {k[6:]: v for k, v in sorted(st.items()) if k.startswith('probe:')},
        'other_counters': {k: v for k, v in sorted(st.items())
                           if not k.startswith(('batch:', 'op:', 'fault-armed:', 'fault-fired:', 'probe:'))},
        'distinct': {k: len(v) for k, v in sorted(batch.sets.items())},
        'simulated_time_ticks': st.get('ticks', 0),
        'determinism_sample': det,
        'regression_programs_replayed': len(regress),
        'regression_programs_failed': regress_failed,
        'components': mod.COMPONENTS,
        'repo': core.repo_path(),
    }
    if pre_info is not None:
        coverage['preflight'] = pre_info
    extra = getattr(mod, 'coverage_extra', None)
    if extra:
        coverage.update(extra(batch))
    core.write_evidence(prop, tier, seed, coverage, mod.ASSUMPTIONS, wall, n_viol)

    zero = [k for k in getattr(mod, 'EXPECTED_PROBES', ()) if not st.get('probe:' + k)]
    for k in zero:
        out("warning: reach probe %r stayed at zero" % k)
    out("%s %s: %d/%d runs in %.1fs (%d/h), %d distinct non-trivial programs, %d states, "
        "%d violations, determinism sample %d/%d equal" %
        (prop, tier, batch.completed, n_runs, batch.wall_s, coverage['runs_per_hour'], nontriv,
         len(batch.sets.get('states', ())), n_viol, det['runs_reexecuted'] - det['mismatches'],
         det['runs_reexecuted']))
    for line in lines:
        out(line)
    if harness:
        for h in harness:
            out(h)
        if not any(l.startswith('VIOLATION') for l in lines):
            return core.EXIT_HARNESS
    if any(l.startswith('VIOLATION') for l in lines):
        return core.EXIT_VIOLATION
    if batch.completed == 0:
        out("HARNESS-ERROR no run completed")
        return core.EXIT_HARNESS
    return core.EXIT_OK


def main(argv):
    if argv and argv[0] == 'selftest':
        import selftest
        return selftest.main(argv[1:])
    ap = argparse.ArgumentParser()
    ap.add_argument('prop')
    ap.add_argument('--tier', default=None, choices=['quick', 'thorough'])
    ap.add_argument('--replay', default=None)
    ap.add_argument('--runs', type=int, default=None)
    ap.add_argument('--jobs', type=int, default=None)
    a = ap.parse_args(argv)
    try:
        if a.replay:
            return cmd_replay(a.prop, a.replay)
        tier = a.tier or os.environ.get('VERIF_TIER') or 'quick'
        return cmd_check(a.prop, tier, a.runs, a.jobs)
    except core.HarnessError as e:
        out("HARNESS-ERROR %s" % e)
        return core.EXIT_HARNESS


if __name__ == '__main__':
    sys.exit(main(sys.argv[1:]))

# -*- coding: utf-8 -*-
"""Deterministic step budget for parses (simulated time) and the interrupt
injector (DESIGN.md 2.3, 2.4).

The pinned tree contains inputs on which tolerant parsing never terminates; a
wall-clock timeout would make results nondeterministic, so every parse runs
under a tick budget counted at the walker's existing seam
LatexWalker.make_token_reader()."""
from __future__ import print_function

import os
import sys


class SimBudget(BaseException):
    """Tick budget exhausted (the operation's result is the constant BUDGET)."""


class SimInterrupt(BaseException):
    """Asynchronous interrupt injected at the k-th line event."""


BUDGET = {'budget_exhausted': True}


def budget_for(s):
    return 50 * (len(s) + 10)


_classes = {}


def _get_classes():
    if _classes:
        return _classes
    from pylatexenc.latexnodes import LatexTokenReader
    from pylatexenc.latexwalker import LatexWalker

    class CountingTokenReader(LatexTokenReader):
        def __init__(self, s, clock, **kwargs):
            super(CountingTokenReader, self).__init__(s, **kwargs)
            self._clock = clock

        def _tick(self):
            c = self._clock
            c[0] += 1
            if c[0] > c[1]:
                raise SimBudget()

        def peek_token(self, parsing_state):
            self._tick()
            return super(CountingTokenReader, self).peek_token(parsing_state)

        def peek_chars(self, num_chars, parsing_state):
            self._tick()
            return super(CountingTokenReader, self).peek_chars(num_chars, parsing_state)

        def peek_space_chars(self, parsing_state):
            self._tick()
            return super(CountingTokenReader, self).peek_space_chars(parsing_state)

        def skip_space_chars(self, parsing_state):
            self._tick()
            return super(CountingTokenReader, self).skip_space_chars(parsing_state)

    from pylatexenc.latexnodes import ParsingStateDelta

    class NoCommentsInMathHandler(object):
        """A user's parsing-state event handler (the documented hook
        LatexWalker.parsing_state_event_handler()): comments are off inside math."""

        def enter_math_mode(self, math_mode_delimiter=None, trigger_token=None):
            return ParsingStateDelta(set_attributes=dict(
                in_math_mode=True, math_mode_delimiter=math_mode_delimiter, enable_comments=False))

        def leave_math_mode(self, trigger_token=None):
            return ParsingStateDelta(set_attributes=dict(
                in_math_mode=False, math_mode_delimiter=None, enable_comments=True))

    class BudgetWalker(LatexWalker):
        def __init__(self, s, **kwargs):
            self.sim_clock = [0, kwargs.pop('sim_budget', None) or budget_for(s)]
            self.sim_custom = kwargs.pop('sim_custom', None)
            super(BudgetWalker, self).__init__(s, **kwargs)

        def parsing_state_event_handler(self):
            if self.sim_custom:
                return NoCommentsInMathHandler()
            return super(BudgetWalker, self).parsing_state_event_handler()

        def make_token_reader(self, pos=None):
            tr = CountingTokenReader(self.s, self.sim_clock,
                                     tolerant_parsing=self.tolerant_parsing)
            if pos is not None:
                tr.move_to_pos_chars(pos)
            return tr

    _classes['reader'] = CountingTokenReader
    _classes['walker'] = BudgetWalker
    return _classes


def make_walker(s, **kwargs):
    return _get_classes()['walker'](s, **kwargs)


def make_reader(s, clock, **kwargs):
    return _get_classes()['reader'](s, clock, **kwargs)


# --------------------------------------------------------------------------
# interrupt injection at the k-th 'line' trace event inside pylatexenc frames

class Interrupter(object):
    """with Interrupter(k) as it: ...   it.fired tells whether it went off;
    it.events counts line events seen inside pylatexenc frames (simulated
    time of the operation)."""

    def __init__(self, k, repo_prefix):
        self.k = k
        self.events = 0
        self.fired = False
        self.fired_at = None
        self.prefix = os.path.join(repo_prefix, 'pylatexenc') + os.sep

    def _local(self, frame, event, arg):
        if event == 'line':
            self.events += 1
            if self.events == self.k and not self.fired:
                self.fired = True
                code = frame.f_code
                self.fired_at = [os.path.basename(code.co_filename), code.co_name, frame.f_lineno]
                raise SimInterrupt()
        return self._local

    def _global(self, frame, event, arg):
        if event == 'call' and frame.f_code.co_filename.startswith(self.prefix):
            return self._local
        return None

    def __enter__(self):
        sys.settrace(self._global)
        return self

    def __exit__(self, *exc):
        sys.settrace(None)
        return False

# -*- coding: utf-8 -*-
"""Self-tests of the simulator (DESIGN.md 2.7):

  check.py selftest simfs [N]            simulated file system vs the kernel
  check.py selftest determinism [PROP..] same seed twice, other worker counts, other harness hash seed
  check.py selftest mutants [NAME..]     sensitivity: every patch in /verif/mutants must be detected
"""
from __future__ import print_function

import errno
import glob
import json
import os
import random
import shutil
import subprocess
import sys
import tempfile
import time

import core
import simfs


def out(*a):
    print(*a)
    sys.stdout.flush()


# --------------------------------------------------------------------------
# simulated file system vs kernel

def _materialise(layout, top):
    """Create the layout with real system calls under top (maps '/sim' -> top + '/sim')."""
    def m(p):
        return top + p
    dirs = []
    for e in layout['entries']:
        if e[0] == 'd':
            os.makedirs(m(e[1]), exist_ok=True)
            dirs.append((e[1], e[2]))
        elif e[0] == 'f':
            _, path, mk, extra, mode, raw_hex = e
            os.makedirs(os.path.dirname(m(path)), exist_ok=True)
            data = (mk + extra + '\n').encode('utf-8')
            if raw_hex:
                data = mk.encode('ascii') + b' ' + bytes.fromhex(raw_hex.replace(' ', '')) + b'\n'
            with open(m(path), 'wb') as f:
                f.write(data)
            os.chmod(m(path), mode)
        elif e[0] == 'l':
            os.makedirs(os.path.dirname(m(e[1])), exist_ok=True)
            tgt = e[2]
            if tgt.startswith('/'):
                tgt = top + tgt
            os.symlink(tgt, m(e[1]))
    for root, dnames, fnames in os.walk(top):
        for n in dnames + fnames:
            try:
                os.lchown(os.path.join(root, n), 65534, 65534)
            except OSError:
                pass
    os.lchown(top, 65534, 65534)
    for path, mode in sorted(dirs, key=lambda x: -len(x[0])):
        os.chmod(m(path), mode)


def _errname(e):
    return errno.errorcode.get(e.errno, str(e.errno))


def _probe_backend(paths, prefix, realpath_too=True):
    """Run the probe calls through os.* (kernel, or the simulation when mounted)."""
    import stat as st
    res = {}
    for p in paths:
        q = prefix + p if p.startswith('/') else p
        r = {}
        for name, fn in (('lstat', os.lstat), ('stat', os.stat)):
            try:
                mode = fn(q).st_mode
                r[name] = 'd' if st.S_ISDIR(mode) else ('l' if st.S_ISLNK(mode) else 'f')
            except OSError as e:
                r[name] = _errname(e)
        try:
            t = os.readlink(q)
            if prefix and t.startswith(prefix):
                t = t[len(prefix):]
            r['readlink'] = ['ok', t]
        except OSError as e:
            r['readlink'] = _errname(e)
        try:
            with open(q, 'rb') as f:
                r['open'] = ['ok', f.read().hex()]
        except OSError as e:
            r['open'] = _errname(e)
        if realpath_too:
            try:
                rp = os.path.realpath(q)
                if prefix:
                    rp = rp[len(prefix):] if rp.startswith(prefix + '/') else '<above>'
                elif not rp.startswith('/sim'):
                    rp = '<above>'
                r['realpath'] = rp
            except OSError as e:
                r['realpath'] = _errname(e)
        res[p] = r
    return res


def _kernel_side(layout, paths, cwd):
    top = None
    for base in ('/var/tmp', '/tmp', os.path.join(core.VERIF_DIR, '.scratch')):
        try:
            os.makedirs(base, exist_ok=True)
            top = tempfile.mkdtemp(prefix='verif-simfs-', dir=base)
            break
        except OSError:
            continue
    if top is None:
        raise core.HarnessError("no writable scratch directory for the kernel side of the differential test")
    try:
        os.chmod(top, 0o755)
        top = os.path.realpath(top)
        _materialise(layout, top)
        dropped = False

        def child():
            if os.getuid() == 0:
                try:
                    os.setgroups([])
                    os.setgid(65534)
                    os.setuid(65534)
                except OSError:
                    pass        # cannot drop privileges: permission bits will not be enforced
            os.chdir(top + cwd)
            return [_probe_backend(paths, top), os.getuid() != 0]
        status, val = core.fork_call(child)
        if status != 'ok':
            raise core.HarnessError("kernel probe child: %s %s" % (status, val))
        return val[0], val[1]
    finally:
        # restore permissions so the tree can be removed
        for root, dnames, fnames in os.walk(top):
            for n in dnames:
                try:
                    os.chmod(os.path.join(root, n), 0o755)
                except OSError:
                    pass
        subprocess.call(['chmod', '-R', 'u+rwx', top])
        shutil.rmtree(top, ignore_errors=True)


def simfs_differential(n_layouts, seed=0, verbose=False):
    import c15
    t0 = time.time()
    probes_total, mismatches, examples = 0, 0, []
    unprivileged = True
    skipped_layouts = 0
    for i in range(n_layouts):
        rng = random.Random("simfs:%d:%d" % (seed, i))
        layout = c15.gen_layout(rng, 'persistent')
        fs, _ = c15.build_fs(layout)
        res = simfs.Resolver(fs)
        basenode = res.resolve(layout['base'])
        paths = set(p for p, _ in fs.all_nodes() if p.startswith('/sim/'))
        for _ in range(40):
            name = c15.gen_name(rng, fs, res, basenode, layout)
            if name.startswith('/'):
                paths.add(name)
            else:
                paths.add(layout['base'] + '/' + name)
                paths.add(c15.relpath_to(layout['cwd'], layout['base']) + '/' + name)
        for p in list(paths)[:30]:
            paths.add(p + '/')
            paths.add(p + '/..')
            paths.add(p + '.tex')
        # keep only probes that stay under /sim (the kernel has a real world above it)
        keep = []
        for p in sorted(paths):
            if '\0' in p or p in ('', '/'):
                continue
            r = simfs.Resolver(fs)
            r.resolve(p)
            if r.went_above:
                continue
            keep.append(p)
        kernel, unpriv = _kernel_side(layout, keep, layout['cwd'])
        unprivileged = unprivileged and unpriv
        if not unpriv and set(layout['features']) & set(['unreadable_file', 'unsearchable_dir']):
            # running as root without the ability to drop privileges: the kernel ignores the
            # permission bits, so layouts that rely on them cannot be compared
            skipped_layouts += 1
            continue
        mount = simfs.Mount(fs, simfs.default_real_prefixes([core.repo_path(), core.VERIF_DIR]))
        with mount:
            sim = _probe_backend(keep, '')
        for p in keep:
            probes_total += 1
            k, s = kernel[p], sim[p]
            if k.get('realpath') == '<above>' or s.get('realpath') == '<above>':
                k = dict(k, realpath=None)
                s = dict(s, realpath=None)
            if k != s:
                mismatches += 1
                if len(examples) < 5:
                    examples.append({'layout': i, 'path': p, 'kernel': k, 'simfs': s})
    info = {'layouts': n_layouts, 'probe_paths': probes_total, 'mismatches': mismatches,
            'examples': examples, 'kernel_side_unprivileged': unprivileged,
            'layouts_skipped_permission_bits_not_enforced': skipped_layouts,
            'calls_compared': ['lstat', 'stat', 'readlink', 'open+read', 'os.path.realpath'],
            'wall_s': round(time.time() - t0, 2)}
    return info


def cmd_simfs(args):
    n = int(args[0]) if args else 100
    info = simfs_differential(n, seed=int(os.environ.get('VERIF_SEED', '0') or 0))
    out(json.dumps(info, indent=1))
    return 0 if not info['mismatches'] else 2


# --------------------------------------------------------------------------

def main(argv):
    if not argv:
        out(__doc__)
        return 2
    if argv[0] == 'simfs':
        return cmd_simfs(argv[1:])
    if argv[0] == 'determinism-dump':
        import selftest_more
        return selftest_more.cmd_determinism_dump(argv[1:])
    if argv[0] == 'determinism':
        import selftest_more
        return selftest_more.cmd_determinism(argv[1:])
    if argv[0] == 'mutants':
        import selftest_more
        return selftest_more.cmd_mutants(argv[1:])
    out(__doc__)
    return 2

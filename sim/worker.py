# -*- coding: utf-8 -*-
"""Worker process: started with an explicit PYTHONHASHSEED, imports pylatexenc
from $VERIF_REPO and then never parses anything itself -- every program is
executed in a fork of this pristine state.  Protocol: JSON lines on
stdin/stdout (stdout is re-pointed to stderr for everything else)."""
from __future__ import print_function

import json
import os
import sys
import traceback

sys.path.insert(0, os.path.dirname(os.path.abspath(__file__)))

import core  # noqa: E402


class Env(object):
    """What a property module may use while running one program."""

    def __init__(self):
        self.hashseed = os.environ.get('PYTHONHASHSEED')
        self.cache = {}          # module-owned, lives for the worker's lifetime

    wall = core.CHILD_WALL_GUARD_S
    zygote = None

    def pristine(self, fn, *args, **kwargs):
        """fn(*args) in a process that has never done anything but import the package."""
        wall = kwargs.pop('wall', self.wall)
        if os.environ.get('VERIF_NO_ZYGOTE'):
            status, val = core.fork_call(fn, *args, wall=wall)
        else:
            if self.zygote is None or self.zygote.pid is None:
                self.zygote = core.Zygote()
            mod = fn.__module__
            mod = mod.upper() if mod in ('c09', 'c14', 'c15', 'c17') else mod
            status, val = self.zygote.call(mod, fn.__name__, list(args), wall)
        if status != 'ok':
            raise core.HarnessError("%s in pristine child: %s" % (status, val))
        return val


def run_one(mod, env, program):
    env.wall = getattr(mod, 'CHILD_WALL_S', core.CHILD_WALL_GUARD_S)
    res = mod.run_program(program, env)
    res['digest'] = core.digest({'program': program, 'trace': res.get('trace')})
    return res


def handle_chunk(msg, env):
    prop, seed, tier = msg['prop'], msg['seed'], msg['tier']
    mod = core.get_module(prop)
    stats = core.Counters()
    sets = {}
    samples, violations, herrs, digests = [], [], [], []
    timeouts = []
    completed = 0
    stuck = 0
    for r in msg['runs']:
        program = None
        if stuck >= 2:
            # the code under test does not come back (each attempt costs a full wall guard):
            # give the rest of the chunk up instead of waiting hours
            herrs.append("run %d: not executed, earlier runs of this chunk timed out" % r)
            continue
        try:
            rng = core.run_rng(prop, seed, r)
            program = mod.generate(rng, tier, r)
            res = run_one(mod, env, program)
        except core.HarnessError as e:
            herrs.append("run %d: %s" % (r, e))
            if 'timeout' in str(e):
                stuck += 1
                if program is not None and len(timeouts) < 2:
                    # the parent will re-execute it in fresh workers: a program that never
                    # comes back, every time, is a violation, not a harness problem
                    timeouts.append({'run': r, 'hashclass': r % core.HASH_CLASSES, 'program': program})
            continue
        except Exception:
            herrs.append("run %d: %s" % (r, traceback.format_exc()))
            continue
        completed += 1
        stats.merge(res.get('stats', {}))
        stats.inc('programs')
        stats.inc('batch:' + program.get('batch', '-'))
        for name, items in res.get('sets', {}).items():
            sets.setdefault(name, set()).update(items)
        if res.get('nontrivial'):
            sets.setdefault('nontrivial_programs', set()).add(core.short_digest(program))
        digests.append([r, res['digest']])
        if r < 3 or (res.get('nontrivial') and len(samples) < 1):
            samples.append({'run': r, 'program': program})
        if res.get('violation'):
            v = dict(res['violation'])
            v.update(run=r, hashclass=r % core.HASH_CLASSES, program=program)
            violations.append(v)
    return {'stats': stats, 'sets': {k: sorted(v) for k, v in sets.items()},
            'samples': samples, 'violations': violations, 'harness_errors': herrs,
            'digests': digests, 'completed': completed, 'timeouts': timeouts}


def handle_program(msg, env):
    mod = core.get_module(msg['prop'])
    res = run_one(mod, env, msg['program'])
    return res


def main():
    proto = os.fdopen(os.dup(1), 'w')
    os.dup2(2, 1)                      # stray prints go to stderr
    sys.stdout = sys.stderr
    try:
        core.import_sut()
    except Exception:
        proto.write(json.dumps({'harness_error': traceback.format_exc()}) + '\n')
        proto.flush()
        return 2
    env = Env()
    # import the property modules now, so that the zygote (forked at the first program) and all
    # its grandchildren already have them
    for prop in ('C09', 'C14', 'C15', 'C17'):
        core.get_module(prop)
    if not os.environ.get('VERIF_NO_ZYGOTE'):
        env.zygote = core.Zygote()
    for line in sys.stdin:
        line = line.strip()
        if not line:
            continue
        msg = json.loads(line)
        try:
            if msg['cmd'] == 'chunk':
                rep = handle_chunk(msg, env)
            elif msg['cmd'] == 'program':
                rep = handle_program(msg, env)
            elif msg['cmd'] == 'exit':
                break
            else:
                rep = {'harness_error': 'unknown cmd %r' % (msg['cmd'],)}
        except core.HarnessError as e:
            rep = {'harness_error': str(e)}
        except Exception:
            rep = {'harness_error': traceback.format_exc()}
        proto.write(json.dumps(rep) + '\n')
        proto.flush()
    for v in env.cache.values():
        close = getattr(v, 'close', None)
        if close:
            close()
    if env.zygote is not None:
        env.zygote.close()
    return 0


if __name__ == '__main__':
    sys.exit(main())

#!/venv/bin/python -B
# -*- coding: utf-8 -*-
"""False-alarm test: run the quick check(s) against a behaviour-preserving change.

  refactortool.py <source-dir> <id> <PROP[,PROP..]> [--runs N]

<source-dir> holds patch.diff and notes.md, written by a sub-agent that was asked for a realistic
maintenance commit that KEEPS the property true.  In a scratch worktree of /repo (removed afterwards):
the patch must apply, the unedited suite must pass, and every named check must exit 0 without a
VIOLATION line.  Writes /verif/refactors/<id>/{patch.diff,notes.md,meta.json}."""
from __future__ import print_function

import json
import os
import shutil
import subprocess
import sys
import time

VERIF = os.path.dirname(os.path.dirname(os.path.abspath(__file__)))
PY = '/venv/bin/python'


def sh(cmd, **kw):
    p = subprocess.run(cmd, stdout=subprocess.PIPE, stderr=subprocess.STDOUT, **kw)
    return p.returncode, p.stdout.decode('utf-8', 'replace')


def main(argv):
    src, rid, props = argv[0], argv[1], argv[2]
    runs = argv[argv.index('--runs') + 1] if '--runs' in argv else None
    wt = '/tmp/vr_' + rid.replace('/', '_')
    sh(['git', '-C', '/repo', 'worktree', 'remove', '--force', wt])
    rc, o = sh(['git', '-C', '/repo', 'worktree', 'add', '-q', '--detach', wt, 'HEAD'])
    assert rc == 0, o
    meta = {'properties': props, 'kind': 'behaviour-preserving change (false-alarm test)',
            'repo_head': sh(['git', '-C', '/repo', 'rev-parse', '--short', 'HEAD'])[1].strip(),
            'verif_commit': sh(['git', '-C', VERIF, 'rev-parse', '--short', 'HEAD'])[1].strip()}
    try:
        rc, o = sh(['git', '-C', wt, 'apply', os.path.join(src, 'patch.diff')])
        meta['patch_applies'] = rc == 0
        if rc != 0:
            print('patch does not apply', o)
            return 2
        rc, o = sh(['timeout', '1200', PY, '-m', 'pytest', '-q', '-p', 'no:cacheprovider', '--timeout=900'], cwd=wt)
        meta['suite_with_patch'] = (o.strip().splitlines() or [''])[-1]
        meta['suite_passes'] = rc == 0
        snap = wt + '_verif'
        shutil.rmtree(snap, ignore_errors=True)
        os.makedirs(snap)
        for d in ('sim', 'regress'):
            shutil.copytree(os.path.join(VERIF, d), os.path.join(snap, d))
        shutil.copy(os.path.join(VERIF, 'known_findings.txt'), snap)
        meta['checks'] = []
        for pr in props.split(','):
            env = dict(os.environ, VERIF_REPO=wt, VERIF_EVIDENCE_DIR=os.path.join(wt, '.ev'))
            cmd = [PY, '-B', os.path.join(snap, 'sim', 'check.py'), pr, '--tier', 'quick']
            if runs:
                cmd += ['--runs', runs]
            t0 = time.time()
            rc, o = sh(cmd, env=env, cwd=snap)
            lines = o.splitlines()
            entry = {'property': pr, 'exit': rc, 'quiet': rc == 0 and not any(l.startswith('VIOLATION') for l in lines),
                     'summary': [l for l in lines if l.startswith(pr + ' quick')][:1],
                     'alarms': [l for l in lines if l.startswith(('VIOLATION', 'violation', 'HARNESS'))][:6],
                     'wall_s': round(time.time() - t0, 1)}
            meta['checks'].append(entry)
        meta['quiet'] = all(c['quiet'] for c in meta['checks'])
    finally:
        sh(['git', '-C', '/repo', 'worktree', 'remove', '--force', wt])
        shutil.rmtree(wt, ignore_errors=True)
        shutil.rmtree(wt + '_verif', ignore_errors=True)
    dst = os.path.join(VERIF, 'refactors', rid)
    os.makedirs(dst, exist_ok=True)
    for f in ('patch.diff', 'notes.md'):
        if os.path.exists(os.path.join(src, f)):
            shutil.copy(os.path.join(src, f), os.path.join(dst, f))
    json.dump(meta, open(os.path.join(dst, 'meta.json'), 'w'), indent=1, sort_keys=True)
    print(json.dumps({k: meta.get(k) for k in ('suite_passes', 'suite_with_patch', 'quiet')}))
    for c in meta['checks']:
        print(c['property'], 'exit', c['exit'], c['wall_s'], 's', c['summary'], c['alarms'][:2])
    return 0


if __name__ == '__main__':
    sys.exit(main(sys.argv[1:]))

# -*- coding: utf-8 -*-
"""C14 -- context database lookups follow category order under every build
history (DESIGN.md 3.2).

System: up to MAX_DBS live LatexContextDb objects, each with a trivial model
twin (ordered list of per-kind dicts).  After *every* operation every live
database is queried completely and compared with its model; the snapshots of
all databases that were not the operation's target must not move."""
from __future__ import print_function

import core

PROP = 'C14'
KINDS = ('macros', 'environments', 'specials')
NAME_ATTR = {'macros': 'macroname', 'environments': 'environmentname',
             'specials': 'specials_chars'}
NAMES = {'macros': ['a', 'b', 'c'], 'environments': ['e', 'f'],
         'specials': ['~', '~~', '~~~', '&', '``', '`']}
UNKNOWN_NAME = {'macros': 'zz', 'environments': 'zz', 'specials': '!!'}
CATS = ['A', 'B', 'C', 'D']
AUTO_PREFIX = '__lctxdb_cat_'
MAX_DBS = 6
PROBE_ALPHABET = '~&`x'
# the 'wide' batch: many categories, long derivation chains, names shared between kinds, long specials
WIDE_NAMES = {'macros': ['a', 'b', 'c', 'e', 'ab', 'abc', u'\u00e9', 'aaaaaaaaaaaa', 'aaaaaaaaaaab'],
              'environments': ['e', 'f', 'a', 'b', u'\u00e9', 'abc'],
              'specials': ['~', '~~', '~~~', '~~~~', '&', '``', '`', '<<', '<<-', '<<->>', u'\u00e4~', '&~&~&']}
WIDE_PROBE_ALPHABET = u'~&`<->x\u00e4'


def universe(program):
    """Per kind: the names that may be defined, and the names every database is asked about (in the
    wide batch every name is asked under every kind)."""
    if program.get('wide'):
        union = sorted(set(WIDE_NAMES['macros']) | set(WIDE_NAMES['environments']))
        ask = {'macros': union + ['~', 'zz'], 'environments': union + ['&', 'zz'],
               'specials': WIDE_NAMES['specials'] + ['a', '!!']}
        return {'define': WIDE_NAMES, 'ask': ask}
    return {'define': NAMES, 'ask': {k: NAMES[k] + [UNKNOWN_NAME[k]] for k in KINDS}}


DEFAULT_U = {'define': NAMES, 'ask': {k: NAMES[k] + [UNKNOWN_NAME[k]] for k in KINDS}}

ASSUMPTIONS = [
    "semantics of the model are the docstrings of LatexContextDb: placement rules, first-match lookup, "
    "longest-match test_for_specials (earliest category on equal strings), filtered_context keeps order, "
    "extended_with shadows everything in the parent",
    "where the documentation does not say which exception a refused operation raises, any Exception is accepted",
    "contract violations other than 'frozen refuses modification' (duplicate category, reserved name, two "
    "placement options) are expected to be refused; if the code accepts one, the run stops comparing "
    "(counted as unspecified-accept) instead of raising an alarm, because the property does not state them",
    "a refused operation must leave a *frozen* database unchanged (that is what refusing modification means); "
    "whether a failed operation on an unfrozen database (duplicate category, failing spec iterable, ...) is atomic "
    "is not stated by the property: if it leaves traces the run stops comparing (unspecified-partial-failure); "
    "other databases must never move (isolation)",
    "spec objects are harness stubs carrying only the documented name attribute and a unique tag",
]


class SimCollabError(Exception):
    """Raised by a faulty user-supplied collaborator (spec iterable)."""


class Spec(object):
    __slots__ = ('macroname', 'environmentname', 'specials_chars', 'tag')

    def __init__(self, kind, name, tag):
        setattr(self, NAME_ATTR[kind], name)
        self.tag = tag

    def __repr__(self):
        return '<Spec %s>' % (self.tag,)


_sub = {}


def sub_db_class():
    if 'cls' not in _sub:
        from pylatexenc.macrospec import LatexContextDb

        class SubContextDb(LatexContextDb):
            pass
        _sub['cls'] = SubContextDb
    return _sub['cls']


class NoAttrSpec(object):
    tag = 'noattr'


def tag_of(obj):
    if obj is None:
        return None
    t = getattr(obj, 'tag', None)
    if isinstance(t, str):
        return t
    return 'foreign:' + type(obj).__name__


# --------------------------------------------------------------------------
# generator

def _subset(rng, names, p):
    return [n for n in names if rng.random() < p]


def _contents(rng, dense):
    p = 0.55 if dense else 0.3
    return {'macros': _subset(rng, NAMES['macros'], p),
            'environments': _subset(rng, NAMES['environments'], p * 0.7),
            'specials': _subset(rng, NAMES['specials'], p * 0.8)}


def _catref(rng):
    x = rng.random()
    if x < 0.75:
        return rng.choice(CATS)
    if x < 0.87:
        return '@first'
    if x < 0.97:
        return '@last'
    return 'Z'       # never exists


def _wide_program(rng, tier, run):
    """Volume: dozens of categories, derivation chains tens of levels deep, names that exist under
    several kinds, long specials, spec objects registered in several categories."""
    D = WIDE_NAMES

    def contents(p):
        return {'macros': _subset(rng, D['macros'], p), 'environments': _subset(rng, D['environments'], p),
                'specials': _subset(rng, D['specials'], p * 0.8)}

    def reuse(c):
        return [[k, n] for k in KINDS for n in c[k] if rng.random() < 0.3]
    big = tier == 'thorough'
    n_cat = rng.choice([9, 14, 18, 30] + ([45, 70] if big else []))
    chain = rng.choice([3, 10, 18, 24] + ([40, 70] if big else []))
    p = rng.choice([0.08, 0.15, 0.3])
    ops = [['new_db']]
    cats = []
    for i in range(n_cat):
        cat = 'K%02d' % i if rng.random() < 0.9 else None
        y = rng.random()
        if y < 0.35 or not cats:
            placement = {}
        elif y < 0.5:
            placement = {'prepend': True}
        elif y < 0.75:
            placement = {'insert_before': rng.choice(cats)}
        else:
            placement = {'insert_after': rng.choice(cats)}
        c = contents(p)
        ops.append(['add', 0, cat, c, placement, rng.random() < 0.2, reuse(c)])
        if cat:
            cats.append(cat)
        if rng.random() < 0.05:
            ops.append(['set_unknown', 0, rng.choice(KINDS), rng.random() < 0.85])
    if rng.random() < 0.3:
        ops.append(['filter', 0, [], [], [], False, False])
        ops.append(['add', -1, 'K99', contents(p), {'prepend': True}, False, []])
    n_live = 2 if ops[-1][0] == 'add' and ops[-1][1] == -1 else 1
    for i in range(chain):
        x = rng.random()
        if n_live >= MAX_DBS - 1:
            ops.append(['drop', rng.randrange(100)])
            n_live -= 1
        if x < 0.78:
            cat = 'X%02d' % i if rng.random() < 0.75 else None
            c = contents(rng.choice([0.05, 0.12, 0.3]))
            unk = {}
            if rng.random() < 0.1:
                unk[rng.choice(KINDS)] = rng.random() < 0.8
            ops.append(['extend', -1, cat, c, unk, True, rng.random() < 0.08, reuse(c)])
        elif x < 0.9:
            excl = [rng.choice(cats)] if rng.random() < 0.5 else []
            which = [] if rng.random() < 0.7 else _subset(rng, KINDS, 0.6)
            ops.append(['filter', -1, [], excl, which, False, False])
        else:
            # a sibling: derive from an older database again
            ops.append(['extend', rng.randrange(100), 'Y%02d' % i, contents(0.2), {}, True, False, []])
        n_live += 1
    probes = [''.join(rng.choice(WIDE_PROBE_ALPHABET) for _ in range(rng.randint(3, 9))) for _ in range(3)]
    probes += ['~~~~~``&`', u'<<->><<-<<\u00e4~', '&~&~&~&']
    prog = {'batch': 'wide', 'wide': True, 'ops': ops, 'probes': probes}
    if rng.random() < 0.5:
        prog['real_specs'] = True
    return prog


def generate(rng, tier, run):
    if run % 100 == 99:
        return _wide_program(rng, tier, run)
    sel = run % 10
    batch = 'plain' if sel < 5 else ('contract' if sel < 8 else 'collab')
    if tier == 'thorough' and rng.random() < 0.3:
        n_ops = rng.randint(15, 40)
    else:
        n_ops = rng.randint(6, 14)
    # swarm: per-run op mix
    w_add = rng.choice([3, 5, 8])
    w_derive = rng.choice([1, 3, 5])
    w_freeze = rng.choice([0.3, 1, 2])
    dense = rng.random() < 0.6
    ops = [['new_db']]
    while len(ops) < n_ops:
        kinds = ['add'] * int(w_add * 2) + ['filter'] * int(w_derive * 2) + \
            ['extend'] * int(w_derive * 2) + ['freeze'] * int(w_freeze * 2 + 0.5) + \
            ['walker', 'set_unknown', 'set_unknown', 'new_db']
        if batch == 'collab':
            kinds += ['add_bad'] * 4 + ['extend_bad'] * 2
        k = rng.choice(kinds)
        dbi = rng.randrange(100)
        if k == 'new_db':
            ops.append(['new_db'])
        elif k == 'add':
            x = rng.random()
            if x < 0.62:
                cat = rng.choice(CATS)
            elif x < 0.95 or batch == 'plain':
                cat = None
            else:
                cat = AUTO_PREFIX + str(rng.randrange(3))
            y = rng.random()
            if y < 0.3:
                placement = {}
            elif y < 0.5:
                placement = {'prepend': True}
            elif y < 0.75:
                placement = {'insert_before': _catref(rng)}
            else:
                placement = {'insert_after': _catref(rng)}
            if batch == 'contract' and rng.random() < 0.08:
                placement = dict(placement)
                extra = rng.choice([{'prepend': True}, {'insert_before': _catref(rng)},
                                    {'insert_after': _catref(rng)}])
                placement.update(extra)
            ops.append(['add', dbi, cat, _contents(rng, dense), placement,
                        rng.random() < 0.3])     # last: pass generators instead of lists
        elif k == 'set_unknown':
            ops.append(['set_unknown', dbi, rng.choice(KINDS), rng.random() < 0.85])
        elif k == 'freeze':
            ops.append(['freeze', dbi])
        elif k == 'walker':
            ops.append(['walker', dbi])
        elif k == 'filter':
            keep = [] if rng.random() < 0.5 else sorted(set(
                _catref(rng) for _ in range(rng.randint(1, 3))))
            excl = [] if rng.random() < 0.55 else sorted(set(
                _catref(rng) for _ in range(rng.randint(1, 2))))
            which = [] if rng.random() < 0.5 else _subset(rng, KINDS, 0.5)
            if batch == 'contract' and rng.random() < 0.1:
                which = which + ['bogus']
            ops.append(['filter', dbi, keep, excl, which, rng.random() < 0.15, rng.random() < 0.12])
        elif k == 'extend':
            cat = None if rng.random() < 0.6 else rng.choice(CATS)
            unk = {}
            if rng.random() < 0.2:
                for kind in _subset(rng, KINDS, 0.5):
                    unk[kind] = rng.random() < 0.8
            ops.append(['extend', dbi, cat, _contents(rng, dense), unk,
                        rng.random() < 0.8,      # freeze the parent first
                        rng.random() < 0.12])    # create_class=<subclass>
        elif k in ('add_bad', 'extend_bad'):
            kind = rng.choice(KINDS)
            names = list(NAMES[kind])
            rng.shuffle(names)
            names = names[:rng.randint(1, len(names))]
            mode = rng.choice(['raise_at', 'noattr'])
            fail_at = rng.randrange(len(names) + (1 if mode == 'raise_at' else 0))
            cat = None if rng.random() < 0.4 else rng.choice(CATS)
            ops.append([k, dbi, cat, kind, names, mode, fail_at, _contents(rng, dense)])
    probes = []
    for _ in range(3):
        probes.append(''.join(rng.choice(PROBE_ALPHABET) for _ in range(rng.randint(2, 7))))
    probes.append('~~~~``&`')
    prog = {'batch': batch, 'ops': ops, 'probes': probes}
    if rng.random() < 0.4:
        prog['real_specs'] = True
    return prog


# --------------------------------------------------------------------------
# model

class Model(object):
    def __init__(self):
        self.cats = []           # [name, {kind: {name: spec}}]
        self.unknown = {k: None for k in KINDS}
        self.frozen = False
        self.auto = set()        # names the database generated itself (whatever they look like)

    def names(self):
        return [c[0] for c in self.cats]

    def position(self, placement):
        """Index at which a new category goes, by the docstring."""
        names = self.names()
        if placement.get('prepend'):
            return 0
        if placement.get('insert_before'):
            x = placement['insert_before']
            return names.index(x) if x in names else 0
        if placement.get('insert_after'):
            x = placement['insert_after']
            return names.index(x) + 1 if x in names else len(names)
        return len(names)

    def lookup(self, kind, name):
        for _, d in self.cats:
            if name in d[kind]:
                return d[kind][name]
        return KeyError

    def test_for_specials(self, s, pos):
        best, best_len = None, 0
        for _, d in self.cats:
            for chars, spec in d['specials'].items():
                if len(chars) > best_len and s.startswith(chars, pos):
                    best, best_len = spec, len(chars)
        return best

    def snapshot(self, probes, U=None):
        U = U or DEFAULT_U
        snap = {'categories': self.names(), 'frozen': self.frozen, 'categories_is_a_copy': True,
                'lookup': {}, 'iter': {}, 'iter_all': {}, 'iter_rev': {}, 'specials': {}}
        for kind in KINDS:
            lk = {}
            for name in U['ask'][kind]:
                found = self.lookup(kind, name)
                if found is KeyError:
                    lk[name] = [tag_of(self.unknown[kind]), 'KeyError']
                else:
                    lk[name] = [tag_of(found), tag_of(found)]
            snap['lookup'][kind] = lk
            snap['iter'][kind] = {c: sorted(tag_of(s) for s in d[kind].values())
                                  for c, d in self.cats}
            snap['iter_all'][kind] = [sorted(tag_of(s) for s in d[kind].values())
                                      for c, d in self.cats]
            snap['iter_rev'][kind] = [sorted(tag_of(s) for s in d[kind].values())
                                      for c, d in reversed(self.cats)]
        for p in probes:
            snap['specials'][p] = [tag_of(self.test_for_specials(p, i))
                                   for i in range(len(p) + 1)]
        return snap

    def state_key(self):
        return core.short_digest([
            [[c, {k: sorted((n, tag_of(s)) for n, s in d[k].items()) for k in KINDS}]
             for c, d in self.cats],
            {k: tag_of(v) for k, v in self.unknown.items()}, self.frozen])


def snapshot(db, probes, U=None):
    """Complete query snapshot of a real database through its public API.  An
    exception raised by a query is recorded as the answer (and will differ
    from the model's)."""
    U = U or DEFAULT_U
    try:
        cats = list(db.categories())
    except Exception as e:
        return {'categories': 'EXC:' + type(e).__name__}
    # the reported list is the caller's: changing it must not change the database
    scratch = db.categories()
    if isinstance(scratch, list):
        scratch.reverse()
        scratch.append('zz-scratch')
    snap = {'categories': list(cats), 'frozen': bool(getattr(db, 'frozen', False)),
            'categories_is_a_copy': list(db.categories()) == list(cats),
            'lookup': {}, 'iter': {}, 'iter_all': {}, 'iter_rev': {}, 'specials': {}}
    getters = {'macros': db.get_macro_spec, 'environments': db.get_environment_spec,
               'specials': db.get_specials_spec}
    iters = {'macros': db.iter_macro_specs, 'environments': db.iter_environment_specs,
             'specials': db.iter_specials_specs}

    def listing(kind, **kw):
        try:
            return [tag_of(s) for s in iters[kind](**kw)]
        except Exception as e:
            return ['EXC:' + type(e).__name__]
    for kind in KINDS:
        lk = {}
        for name in U['ask'][kind]:
            try:
                a = tag_of(getters[kind](name))
            except Exception as e:
                a = 'EXC:' + type(e).__name__
            try:
                b = tag_of(getters[kind](name, raise_if_not_found=True))
            except KeyError:
                b = 'KeyError'
            except Exception as e:
                b = 'EXC:' + type(e).__name__
            lk[name] = [a, b]
        snap['lookup'][kind] = lk
        snap['iter'][kind] = {c: sorted(listing(kind, categories=[c])) for c in cats}
        # iteration over all categories must be the concatenation, in order
        allspecs = listing(kind)
        chunks, i = [], 0
        for c in cats:
            n = len(snap['iter'][kind][c])
            chunks.append(sorted(allspecs[i:i + n]))
            i += n
        if i != len(allspecs):
            chunks.append(['<extra>'] + allspecs[i:])
        snap['iter_all'][kind] = chunks
        # several categories in an order chosen by the caller: concatenation in that order
        revspecs = listing(kind, categories=list(reversed(cats)))
        chunks, i = [], 0
        for c in reversed(cats):
            n = len(snap['iter'][kind][c])
            chunks.append(sorted(revspecs[i:i + n]))
            i += n
        if i != len(revspecs):
            chunks.append(['<extra>'] + revspecs[i:])
        snap['iter_rev'][kind] = chunks
    for p in probes:
        row = []
        for i in range(len(p) + 1):
            try:
                row.append(tag_of(db.test_for_specials(p, i)))
            except Exception as e:
                row.append('EXC:' + type(e).__name__)
        snap['specials'][p] = row
    return snap


def first_diff(a, b, path=''):
    if type(a) != type(b):
        return path, a, b
    if isinstance(a, dict):
        for k in sorted(set(a) | set(b), key=str):
            if k not in a or k not in b:
                return path + '/' + str(k), a.get(k, '<absent>'), b.get(k, '<absent>')
            d = first_diff(a[k], b[k], path + '/' + str(k))
            if d:
                return d
        return None
    if isinstance(a, list):
        if len(a) != len(b):
            return path, a, b
        for i, (x, y) in enumerate(zip(a, b)):
            d = first_diff(x, y, '%s[%d]' % (path, i))
            if d:
                return d
        return None
    if a != b:
        return path, a, b
    return None


def model_free_order_check(snap, U=None):
    """Invariant 3: the returned definition is the one of the first category,
    in the *reported* order, whose own iteration contains that name."""
    U = U or DEFAULT_U
    if not isinstance(snap.get('categories'), list):
        return None
    for kind in KINDS:
        for name in U['define'][kind]:
            want = None
            for c in snap['categories']:
                hits = [t for t in snap['iter'][kind][c] if t and t.split('#')[0] == kind[0] + ':' + name]
                if hits:
                    want = hits[0]
                    break
            if want is None:
                continue
            got = snap['lookup'][kind][name]
            if got[0] != want or got[1] != want:
                return ('lookup/%s/%s' % (kind, name), got, want)
    return None


# --------------------------------------------------------------------------
# executor

class Violation(Exception):
    def __init__(self, invariant, **info):
        Exception.__init__(self, invariant)
        self.invariant = invariant
        self.info = info


REAL = {'on': False}      # per program: real MacroSpec / EnvironmentSpec / SpecialsSpec objects instead of stubs


def _one_spec(kind, name, tag):
    if not REAL['on']:
        sp = Spec(kind, name, tag)
        if sum(ord(c) for c in tag) % 6 == 0:
            # an object that also carries the name attributes of the other kinds (the public base
            # class of the spec classes accepts all three): it is filed under the kind it is given as
            for k2, decoy in (('macros', 'b'), ('environments', 'f'), ('specials', '~~')):
                if k2 != kind:
                    setattr(sp, NAME_ATTR[k2], decoy)
        return sp
    from pylatexenc import macrospec
    h = sum(ord(c) for c in tag)
    if kind == 'macros':
        sp = [lambda: macrospec.MacroSpec(name, '{'), lambda: macrospec.MacroSpec(name, ['[', '{']),
              lambda: macrospec.std_macro(name, True, 1), lambda: macrospec.MacroSpec(name)][h % 4]()
    elif kind == 'environments':
        sp = [lambda: macrospec.EnvironmentSpec(name, ''), lambda: macrospec.std_environment(name, '[{'),
              lambda: macrospec.EnvironmentSpec(name, ['{'], is_math_mode=True)][h % 3]()
    else:
        sp = [lambda: macrospec.SpecialsSpec(name), lambda: macrospec.SpecialsSpec(name, ['{'])][h % 2]()
    sp.tag = tag
    return sp


def _mk_specs(kind, names, opi, tagsuffix=''):
    return [_one_spec(kind, n, '%s:%s#%d%s' % (kind[0], n, opi, tagsuffix)) for n in names]


def _resolve(ref, names):
    if ref == '@first':
        return names[0] if names else 'A'
    if ref == '@last':
        return names[-1] if names else 'A'
    return ref


def _faulty_iter(specs, mode, fail_at):
    if mode == 'noattr':
        out = list(specs)
        out[min(fail_at, len(out) - 1)] = NoAttrSpec()
        return out

    def gen():
        for i, s in enumerate(specs):
            if i == fail_at:
                raise SimCollabError("collaborator failed at item %d" % i)
            yield s
        if fail_at >= len(specs):
            raise SimCollabError("collaborator failed at end")
    return gen()


def execute(program):
    from pylatexenc.macrospec import LatexContextDb
    from pylatexenc.latexwalker import LatexWalker
    probes = program['probes']
    stats = core.Counters()
    states = set()
    trace = []
    live = []           # [db, model, derived_depth]
    violation = None
    nontrivial = False
    stop = False

    U = universe(program)
    REAL['on'] = bool(program.get('real_specs'))
    if REAL['on']:
        stats.inc('probe:real-spec-objects')
    made = {}           # (kind, name) -> the spec object created last for it (wide batch: objects registered twice)
    prev_after = None

    def snaps():
        return [snapshot(db, probes, U) for db, _, _ in live]

    def mk_specs(k, names, opi, reuse=()):
        out = []
        for n in names:
            if [k, n] in reuse and (k, n) in made:
                out.append(made[(k, n)])
                stats.inc('probe:spec-object-registered-again')
            else:
                sp = _mk_specs(k, [n], opi)[0]
                made[(k, n)] = sp
                out.append(sp)
        return out

    try:
        for opi, op in enumerate(program['ops']):
            kind = op[0]
            # nothing happens between two operations: the snapshots taken after the previous one are
            # the ones from before this one
            before = prev_after if prev_after is not None and len(prev_after) == len(live) else snaps()
            prev_after = None
            target = None
            expect_new = None        # model of the db the op is expected to create
            new_db = None
            outcome = 'ok'
            if kind == 'new_db':
                if len(live) >= MAX_DBS:
                    outcome = 'skipped'
                else:
                    live.append([LatexContextDb(), Model(), 0])
            elif not live:
                outcome = 'skipped'
            elif kind == 'drop':
                # the application lets go of a database (never the first one)
                if len(live) > 2:
                    j = 1 + op[1] % (len(live) - 1)
                    del live[j]
                    del before[j]
                    stats.inc('op:drop')
                else:
                    outcome = 'skipped'
            else:
                target = op[1] % len(live)
                db, m, depth = live[target]
                names = m.names()
                # ---------------------------------------------------- add
                if kind == 'add':
                    _, _, cat, contents, placement, as_gen = op[:6]
                    placement = {k: (_resolve(v, names) if isinstance(v, str) else v)
                                 for k, v in placement.items()}
                    specs = {k: mk_specs(k, contents[k], opi, op[6] if len(op) > 6 else ()) for k in KINDS}
                    n_place = len([1 for v in placement.values() if v])
                    reject = None
                    if m.frozen:
                        reject = 'frozen'
                    elif cat is not None and cat.startswith(AUTO_PREFIX):
                        reject = 'reserved-name'
                    elif cat is not None and cat in names:
                        reject = 'duplicate-category'
                    elif n_place > 1:
                        reject = 'two-placements'
                    args = {k: ((s for s in specs[k]) if as_gen else list(specs[k]))
                            for k in KINDS}
                    try:
                        db.add_context_category(cat, macros=args['macros'],
                                                environments=args['environments'],
                                                specials=args['specials'], **placement)
                        raised = None
                    except Exception as e:
                        raised = e
                    stats.inc('op:add')
                    if reject:
                        stats.inc('fault-armed:contract-' + reject)
                        if raised is None:
                            if reject == 'frozen':
                                raise Violation('frozen-refuses-modification', op_index=opi, db=target,
                                                observed='add_context_category accepted',
                                                expected='an exception')
                            stats.inc('unspecified-accept:' + reject)
                            stop = True
                        else:
                            stats.inc('fault-fired:contract-' + reject)
                            outcome = 'rejected'
                    else:
                        if raised is not None:
                            raise Violation('legal-operation-refused', op_index=opi, db=target,
                                            observed=repr(raised), expected='category added')
                        pos = m.position(placement)
                        if cat is None:
                            got = db.categories()
                            if len(got) != len(names) + 1 or pos >= len(got) or \
                               got[:pos] != names[:pos] or got[pos + 1:] != names[pos:] or \
                               got[pos] in names or got[pos] in CATS or not isinstance(got[pos], str) or got[pos].startswith(('K', 'X')):
                                raise Violation('categories-order', op_index=opi, db=target,
                                                observed=got,
                                                expected=names[:pos] + ['<auto>'] + names[pos:])
                            cat = got[pos]
                            m.auto.add(cat)
                            stats.inc('probe:auto-category-added')
                        m.cats.insert(pos, [cat, {k: dict((getattr(s, NAME_ATTR[k]), s)
                                                          for s in specs[k]) for k in KINDS}])
                        if placement and any(placement.values()):
                            stats.inc('op:add-positional')
                            if 0 < len(names):
                                nontrivial = True
                            if 0 < pos < len(names):
                                stats.inc('probe:insert-in-the-middle')
                # ---------------------------------------------------- set_unknown
                elif kind == 'set_unknown':
                    _, _, which, present = op
                    spec = _one_spec(which, '' if REAL['on'] else '<unknown>', 'u:%s#%d' % (which[0], opi)) if present else None
                    setter = {'macros': db.set_unknown_macro_spec,
                              'environments': db.set_unknown_environment_spec,
                              'specials': db.set_unknown_specials_spec}[which]
                    try:
                        setter(spec)
                        raised = None
                    except Exception as e:
                        raised = e
                    stats.inc('op:set_unknown')
                    if m.frozen:
                        stats.inc('fault-armed:contract-frozen')
                        if raised is None:
                            raise Violation('frozen-refuses-modification', op_index=opi, db=target,
                                            observed='set_unknown_%s_spec accepted' % which,
                                            expected='an exception')
                        stats.inc('fault-fired:contract-frozen')
                        outcome = 'rejected'
                    else:
                        if raised is not None:
                            raise Violation('legal-operation-refused', op_index=opi, db=target,
                                            observed=repr(raised), expected='unknown spec set')
                        m.unknown[which] = spec
                # ---------------------------------------------------- freeze / walker
                elif kind == 'freeze':
                    db.freeze()
                    m.frozen = True
                    stats.inc('op:freeze')
                elif kind == 'walker':
                    LatexWalker('x', latex_context=db)
                    m.frozen = True
                    stats.inc('op:walker-implicit-freeze')
                # ---------------------------------------------------- filter
                elif kind == 'filter':
                    keep, excl, which, legacy = op[2:6]
                    use_cls = len(op) > 6 and op[6]
                    keep = [_resolve(c, names) for c in keep]
                    excl = [_resolve(c, names) for c in excl]
                    fn = db.filter_context if legacy else db.filtered_context
                    stats.inc('op:filter')
                    if len(live) >= MAX_DBS:
                        outcome = 'skipped'
                    else:
                        kwcls = {'create_class': sub_db_class()} if use_cls else {}
                        try:
                            new_db = fn(keep_categories=list(keep), exclude_categories=list(excl),
                                        keep_which=list(which), **kwcls)
                        except Exception as e:
                            if any(w not in KINDS for w in which):
                                # keep_which "should be a subset of ['macros', 'environments', 'specials']":
                                # refusing anything else is as legitimate as ignoring it
                                stats.inc('fault-armed:contract-invalid-keep_which')
                                stats.inc('fault-fired:contract-invalid-keep_which')
                                outcome = 'rejected'
                                new_db = None
                            else:
                                raise Violation('derived-db-first-class', op_index=opi, db=target,
                                                observed='filtered_context raised ' + repr(e),
                                                expected='a filtered database',
                                                derived_depth=depth)
                    if new_db is not None:
                        nm = Model()
                        for c, d in m.cats:
                            if keep and c not in keep:
                                continue
                            if excl and c in excl:
                                continue
                            nm.cats.append([c, {k: (dict(d[k]) if (not which or k in which) else {})
                                                for k in KINDS}])
                        nm.unknown = dict(m.unknown)
                        nm.frozen = bool(getattr(new_db, 'frozen', False))     # not specified; adopted
                        want_cls = sub_db_class() if use_cls else type(db)
                        if type(new_db) is not want_cls:
                            raise Violation('derived-db-first-class', op_index=opi, db=target,
                                            observed='filtered_context returned a ' + type(new_db).__name__,
                                            expected=want_cls.__name__)
                        if use_cls:
                            stats.inc('probe:create_class-used')
                        expect_new = nm
                        if depth > 0:
                            nontrivial = True
                            stats.inc('probe:filter-of-derived')
                        nm.auto = set(c for c in m.auto if c in nm.names())
                        if nm.auto:
                            stats.inc('probe:filter-keeps-auto-category')
                # ---------------------------------------------------- extend
                elif kind == 'extend':
                    cat, contents, unk, freeze_first = op[2:6]
                    use_cls = len(op) > 6 and op[6]
                    stats.inc('op:extend')
                    if len(live) >= MAX_DBS:
                        outcome = 'skipped'
                    else:
                        if freeze_first and not m.frozen:
                            db.freeze()
                            m.frozen = True
                            before[target] = snapshot(db, probes, U)
                        specs = {k: mk_specs(k, contents[k], opi, op[7] if len(op) > 7 else ()) for k in KINDS}
                        kw = {}
                        unk_specs = {}
                        for k, present in sorted(unk.items()):
                            unk_specs[k] = _one_spec(k, '' if REAL['on'] else '<unknown>', 'u:%s#%d' % (k[0], opi)) \
                                if present else None
                            kw['unknown_%s_spec' % {'macros': 'macro', 'environments': 'environment',
                                                    'specials': 'specials'}[k]] = unk_specs[k]
                        if use_cls:
                            kw['create_class'] = sub_db_class()
                        reject = None
                        if not m.frozen:
                            reject = 'extend-unfrozen'
                        elif cat is not None and cat in names:
                            reject = 'duplicate-category'
                        # kinds without new definitions are sometimes simply not passed (default None),
                        # and so is the category when it is None
                        kwx = {}
                        for k in KINDS:
                            if specs[k] or (opi + len(k)) % 2:
                                kwx[k] = list(specs[k])
                        if cat is not None or opi % 3:
                            kwx['category'] = cat
                        try:
                            new_db = db.extended_with(**dict(kwx, **kw))
                            raised = None
                        except Exception as e:
                            raised = e
                        if reject:
                            stats.inc('fault-armed:contract-' + reject)
                            if raised is None:
                                stats.inc('unspecified-accept:' + reject)
                                stop = True
                                new_db = None
                            else:
                                stats.inc('fault-fired:contract-' + reject)
                                outcome = 'rejected'
                        else:
                            if raised is not None:
                                raise Violation('derived-db-first-class', op_index=opi, db=target,
                                                observed='extended_with raised ' + repr(raised),
                                                expected='an extended database',
                                                derived_depth=depth)
                            nm = Model()
                            newd = {k: dict((getattr(s, NAME_ATTR[k]), s) for s in specs[k])
                                    for k in KINDS}
                            got = new_db.categories()
                            if cat is None and names and names[0] in m.auto \
                               and got == names:
                                # merged into the leading auto-generated category
                                first = {k: dict(m.cats[0][1][k]) for k in KINDS}
                                for k in KINDS:
                                    first[k].update(newd[k])
                                nm.cats = [[names[0], first]] + \
                                    [[c, {k: dict(d[k]) for k in KINDS}] for c, d in m.cats[1:]]
                                stats.inc('probe:extend-merged-into-auto-category')
                            else:
                                if cat is None:
                                    if len(got) != len(names) + 1 or got[1:] != names or \
                                       got[0] in names or got[0] in CATS or not isinstance(got[0], str) or got[0].startswith(('K', 'X')):
                                        raise Violation('categories-order', op_index=opi, db=target,
                                                        observed=got, expected=['<auto>'] + names)
                                    newcat = got[0]
                                else:
                                    newcat = cat
                                nm.cats = [[newcat, newd]] + \
                                    [[c, {k: dict(d[k]) for k in KINDS}] for c, d in m.cats]
                            nm.auto = set(m.auto)
                            if cat is None and nm.cats and nm.cats[0][0] not in names:
                                nm.auto.add(nm.cats[0][0])
                            nm.unknown = dict(m.unknown)
                            for k, s in unk_specs.items():
                                nm.unknown[k] = s
                            nm.frozen = bool(getattr(new_db, 'frozen', False))     # adopted, checked behaviourally later
                            want_cls = sub_db_class() if use_cls else type(db)
                            if type(new_db) is not want_cls:
                                raise Violation('derived-db-first-class', op_index=opi, db=target,
                                                observed='extended_with returned a ' + type(new_db).__name__,
                                                expected=want_cls.__name__)
                            if use_cls:
                                stats.inc('probe:create_class-used')
                            expect_new = nm
                            if depth > 0:
                                nontrivial = True
                                stats.inc('probe:extend-of-derived')
                # ---------------------------------------------------- faulty collaborators
                elif kind in ('add_bad', 'extend_bad'):
                    _, _, cat, which, bad_names, mode, fail_at, contents = op
                    specs = {k: _mk_specs(k, contents[k], opi) for k in KINDS}
                    specs[which] = _faulty_iter(_mk_specs(which, bad_names, opi, 'x'), mode, fail_at)
                    stats.inc('op:' + kind)
                    stats.inc('fault-armed:collaborator-' + mode)
                    try:
                        if kind == 'add_bad':
                            db.add_context_category(cat, macros=specs['macros'],
                                                    environments=specs['environments'],
                                                    specials=specs['specials'])
                        else:
                            new_db = db.extended_with(category=cat, macros=specs['macros'],
                                                      environments=specs['environments'],
                                                      specials=specs['specials'])
                        raised = None
                    except Exception as e:
                        raised = e
                    if raised is None:
                        # the operation did not trip over the faulty collaborator (it may be lazy, or
                        # lenient about nameless specs): what the database holds now is not specified
                        stats.inc('unspecified-accept:collaborator-' + mode)
                        stop = True
                    elif isinstance(raised, SimCollabError) or \
                       (mode == 'noattr' and isinstance(raised, AttributeError)):
                        stats.inc('fault-fired:collaborator-' + mode)
                    new_db = None
                    outcome = 'rejected'
                else:
                    raise core.HarnessError("unknown op %r" % (op,))

            # ------------------------------------------------------------ after every operation
            if stop:
                trace.append([kind, 'unspecified-accept'])
                break
            if new_db is not None and expect_new is not None:
                live.append([new_db, expect_new, live[target][2] + 1])
            after = snaps()
            prev_after = after
            # isolation / failed-operation: nothing but the target may move
            for j, snap_before in enumerate(before):
                if j == target and outcome == 'ok' and kind in ('add', 'set_unknown', 'freeze', 'walker'):
                    continue
                d = first_diff(snap_before, after[j])
                if d:
                    if j == target and outcome == 'rejected':
                        if before[j].get('frozen'):
                            raise Violation('frozen-refuses-modification', op_index=opi, db=j, where=d[0],
                                            observed=d[2], expected=d[1])
                        # a refused operation on an unfrozen database left traces: atomicity of
                        # failures is not part of the property; stop comparing this history
                        stats.inc('unspecified-partial-failure')
                        stop = True
                        break
                    raise Violation('isolation', op_index=opi, db=j, where=d[0], observed=d[2], expected=d[1])
            if stop:
                trace.append([kind, 'unspecified-partial-failure'])
                break
            # model agreement and model-free order, for every live database
            for j, (dbj, mj, _) in enumerate(live):
                want = mj.snapshot(probes, U)
                d = first_diff(want, after[j])
                if d:
                    where = d[0]
                    if where.startswith('/categories'):
                        inv = 'categories-order'
                    elif where.startswith('/specials'):
                        inv = 'specials-longest-match'
                    elif where.startswith('/frozen'):
                        inv = 'frozen-flag'
                    elif where.startswith('/iter'):
                        inv = 'category-contents'
                    else:
                        inv = 'lookup-follows-reported-order'
                    raise Violation(inv, op_index=opi, db=j, where=where, observed=d[2], expected=d[1])
                d = model_free_order_check(after[j], U)
                if d:
                    raise Violation('lookup-follows-reported-order', op_index=opi, db=j,
                                    where=d[0], observed=d[1], expected=d[2])
                states.add(mj.state_key())
            stats.inc('outcome:' + outcome)
            stats.inc('checked-operations')
            stats.inc('db-snapshots-compared', len(live))
            trace.append([kind, outcome, core.short_digest(after)])
    except Violation as v:
        violation = dict(v.info, invariant=v.invariant, op=program['ops'][v.info['op_index']])
        for k in ('observed', 'expected'):
            if not isinstance(violation.get(k), (str, int, list, dict, type(None))):
                violation[k] = repr(violation[k])
        trace.append(['violation', v.invariant])

    return {'violation': violation, 'trace': trace, 'stats': stats,
            'sets': {'states': sorted(states)}, 'nontrivial': nontrivial}


def run_program(program, env):
    return env.pristine(execute, program)


# --------------------------------------------------------------------------
# shrinking and findings

def shrink_candidates(program):
    ops = program['ops']
    if len(program['probes']) > 1:
        for i in range(len(program['probes'])):
            yield dict(program, probes=program['probes'][:i] + program['probes'][i + 1:])
    for i, op in enumerate(ops):
        def repl(new):
            return dict(program, ops=ops[:i] + [new] + ops[i + 1:])
        if op[0] in ('add', 'extend'):
            contents = op[3]
            for k in KINDS:
                for n in contents[k]:
                    c2 = dict(contents)
                    c2[k] = [x for x in contents[k] if x != n]
                    yield repl(op[:3] + [c2] + op[4:])
        if op[0] == 'add':
            if op[5]:
                yield repl(op[:5] + [False])
            if op[2] is None:
                for c in CATS:
                    yield repl(op[:2] + [c] + op[3:])
            if op[4]:
                yield repl(op[:4] + [{}] + op[5:])
                if len(op[4]) == 1 and 'prepend' not in op[4]:
                    yield repl(op[:4] + [{'prepend': True}] + op[5:])
            for k, v in op[4].items():
                if isinstance(v, str) and v.startswith('@'):
                    for c in CATS:
                        yield repl(op[:4] + [dict(op[4], **{k: c})] + op[5:])
        if op[0] == 'filter':
            for idx in (2, 3, 4):
                if op[idx]:
                    yield repl(op[:idx] + [[]] + op[idx + 1:])
            if op[5]:
                yield repl(op[:5] + [False])
        if op[0] == 'extend' and op[4]:
            yield repl(op[:4] + [{}] + op[5:])
        if op[0] in ('filter', 'extend') and len(op) > 6 and op[6]:
            yield repl(op[:6] + [False])
        if op[0] == 'add' and len(op) > 6 and op[6]:
            yield repl(op[:6] + [[]])
        if op[0] == 'extend' and len(op) > 7 and op[7]:
            yield repl(op[:7] + [[]])
        if len(op) > 1 and isinstance(op[1], int) and op[1] > 5:
            yield repl([op[0], op[1] % 6] + op[2:])


def finding_key(program, violation):
    return '%s|%s' % (violation['invariant'], ','.join(sorted(set(o[0] for o in program['ops']))))


RULE = ("programs are generated from VERIF_SEED (6-14 operations, up to 40 in the thorough tier) over "
        "macro names a,b,c / environment names e,f / prefix-related specials / categories A-D, "
        "auto-generated and reserved names; a program is non-trivial when a positional insertion "
        "(prepend / insert_before / insert_after) succeeded on a database that already had a category, "
        "or a derived database was itself filtered or extended; distinct = distinct program digest")
COMPONENTS = {
    'real': ['pylatexenc.macrospec.LatexContextDb (all methods)', 'pylatexenc._util.ChainMap',
             'pylatexenc.latexwalker.LatexWalker.__init__ (implicit freeze)'],
    'stub': ['spec objects: harness stubs with the documented name attribute and a unique tag',
             'faulty collaborators: spec iterables that raise after k items / specs without a name attribute'],
}

TIERS = {
    'quick': {'runs': 30000, 'wall_cap': 300},
    'thorough': {'runs': 600000, 'wall_cap': 3000},
}
EXPECTED_PROBES = ['insert-in-the-middle', 'auto-category-added', 'filter-of-derived', 'extend-of-derived',
                   'extend-merged-into-auto-category', 'spec-object-registered-again', 'real-spec-objects']

STATES_MEASURE = ('distinct canonical model states reached: category order, contents by spec tag, unknown-specs, frozen flag')

# wall-clock guard per forked child (a program normally takes milliseconds to a second); only ever
# turns a hang into 'timeout', which is confirmed twice before it is reported
CHILD_WALL_S = 20
